#!/bin/bash
# offline setup: runtime-contract libraries beside the repository's interpreter
set -e
cd "$(dirname "$0")"
mkdir -p .deps evidence
if [ ! -d .deps/icontract ] || [ ! -d .deps/deal ]; then
  PIP_NO_INDEX=1 /venv/bin/python -m pip install -q --no-index \
     --find-links /opt/veriftools/wheels --target .deps deal icontract
fi
/venv/bin/python -c "import sys; sys.path.insert(0,'.deps'); import icontract, deal; print('deps ok')"
