"""
Case-spec generators shared by the mapping properties (C01, C03, C15, ...).
A spec is plain JSON; vp.mapworld.build_world turns it into files.
"""
import numpy as np

from vp import gen

ENCODINGS = ['dense', 'csr', 'csc']
N_SHAPES = 470


def shape_info():
    return gen.enumerate_shapes(4, 6)


def _common_random(rng, n_levels, n_leaves):
    n_cells = int(rng.choice([1, 2, 3, 5, 8, 13, 21, 40]))
    return {
        'n_cells': n_cells,
        'n_genes': int(rng.integers(8, 40)),
        'encoding': str(rng.choice(ENCODINGS)),
        'normalization': str(rng.choice(['raw', 'log2CPM'])),
        'x_dtype': 'float64',
        'chunk_size': int(rng.choice([1, 2, 3, 7, n_cells, n_cells + 3])),
        'n_processors': int(rng.integers(1, 6)),
        'n_runners_up': int(rng.integers(0, 8)),
        'bootstrap_iteration': int(rng.choice([1, 2, 5, 10, 25, 50])),
        'bootstrap_factor': float(rng.choice(
            [0.1, 0.25, 0.3, 0.5, 0.7, 0.9, 1.0])),
        'min_markers': int(rng.integers(1, 11)),
        'rng_seed': int(rng.integers(0, 2 ** 31)),
        'marker_class': str(rng.choice(['complete', 'sparse', 'absentq'])),
        'separable': bool(rng.random() < 0.6),
        'cell_id_style': str(rng.choice(
            ['plain', 'numeric', 'unicode', 'mixed'])),
        'noise': float(rng.choice([0.3, 1.0, 3.0])),
        # memory budget of the CSC->CSR conversion (tiny = several passes)
        'max_gb': float(rng.choice([1e-9, 1e-6, 1.0, 1.0])),
        # occasionally hundreds of foreign genes in front of the markers
        'n_extra_genes': (int(rng.integers(260, 400))
                          if rng.random() < 0.08 else None),
        'extra_first': bool(rng.random() < 0.5),
        # HDF5 storage layout of the query matrix (None = what anndata
        # writes: contiguous)
        'h5_layout': (str(rng.choice(['cols', 'rows', 'tall', 'wide',
                                      'small', 'gzip']))
                      if rng.random() < 0.3 else None),
        # gene order of the query file relative to the reference
        'query_order': [None, None, 'reference',
                        'markers-interior-shuffled'][int(rng.integers(4))],
        # sparse files whose minor indices are not sorted within a slice
        'unsorted_indices': (int(rng.integers(1, 2 ** 31))
                             if rng.random() < 0.3 else None),
    }


def nasty_quick_cases(rng, n):
    """cases biased to the classes most likely to break bookkeeping"""
    shapes = shape_info()
    single_top = [i for i, (d, k, f) in enumerate(shapes)
                  if len(f) == 1 and d > 1]
    # two or more single-node levels on top of a level with a real choice
    top_chain2 = [i for i, (d, k, f) in enumerate(shapes)
                  if d >= 3 and k >= 2 and len(f) == 1 and len(f[0]) == 1]
    chains = [i for i, (d, k, f) in enumerate(shapes) if k == 1 and d > 1]
    one_level = [i for i, (d, k, f) in enumerate(shapes) if d == 1]
    deep = [i for i, (d, k, f) in enumerate(shapes) if d == 4 and k >= 5]
    out = []
    for i in range(n):
        sel = i % 8
        if sel == 0 and i % 16 == 8:
            si = int(rng.choice(top_chain2))
        elif sel == 0:
            si = int(rng.choice(single_top))
        elif sel == 1:
            si = int(rng.choice(chains))
        elif sel == 2:
            si = int(rng.choice(one_level))
        elif sel in (3, 4):
            si = int(rng.choice(deep))
        else:
            si = int(rng.integers(len(shapes)))
        d, k, f = shapes[si]
        spec = _common_random(rng, d, k)
        spec['shape_index'] = si
        spec['seed'] = int(rng.integers(0, 2 ** 31))
        mode = i % 5
        if mode == 0:
            spec['n_cells'] = 1
        elif mode == 1:
            spec['chunk_size'] = 1
            spec['n_cells'] = int(rng.choice([3, 7]))
        elif mode == 2:
            spec['n_processors'] = 5
            spec['n_cells'] = 2
        r = rng.random()
        if sel == 0 and i % 16 == 8:
            pass            # keep the chain on top as it is
        elif d > 1 and r < 0.3:
            spec['flatten'] = True
        elif d > 1 and r < 0.7:
            spec['drop_level_index'] = int(rng.integers(0, d - 1))
        out.append(spec)
    return out


def chunk_name_order_cases(rng, n=2):
    """
    cell and chunk counts for which the per-chunk files '<r0>_<r1>_...' sort
    as text with the first chunk first and the last chunk last but the
    middle scrambled (100 cells / chunk 5, 1000 / 10): an "already in
    order" test that looks at the ends only would be fooled
    """
    out = []
    for k in range(n):
        d = int(rng.integers(2, 4))
        spec = _common_random(rng, d, 6)
        spec.update({'n_levels': d, 'n_leaves': int(rng.integers(3, 8)),
                     'seed': int(rng.integers(0, 2 ** 31)),
                     'n_cells': [100, 1000][k % 2],
                     'chunk_size': [5, 10][k % 2],
                     'n_processors': int(rng.integers(1, 4)),
                     'bootstrap_iteration': 2, 'n_genes': 20,
                     'cell_id_style': 'plain', 'n_extra_genes': None})
        out.append(spec)
    return out


def very_wide_case(rng):
    """
    300 children under the root, 1200 cells in a single chunk of a single
    worker: more than 256 different children are chosen at once
    """
    spec = _common_random(rng, 2, 600)
    spec.update({'wide_root': 330, 'n_levels': 2, 'n_leaves': 660,
                 'marker_kmin': 60, 'marker_kmax': 90,
                 'seed': int(rng.integers(0, 2 ** 31)), 'n_cells': 1600,
                 'chunk_size': 5000, 'n_processors': 1,
                 'bootstrap_iteration': 2, 'bootstrap_factor': 0.9,
                 'n_genes': 300, 'n_runners_up': 2, 'separable': True,
                 'noise': 0.3, 'cell_id_style': 'plain',
                 'n_extra_genes': None, 'marker_class': 'complete',
                 'h5_layout': None, 'unsorted_indices': None,
                 'query_order': None, 'encoding': 'csr',
                 'normalization': 'log2CPM', 'min_markers': 3})
    spec.pop('flatten', None)
    spec.pop('drop_level_index', None)
    return spec


def exhaustive_shape_cases(rng, per_shape_variants=True):
    """all 470 shapes x {plain, flatten, each droppable level}"""
    shapes = shape_info()
    out = []
    for si, (d, k, f) in enumerate(shapes):
        variants = [{}]
        if per_shape_variants and d > 1:
            variants.append({'flatten': True})
            for li in range(d - 1):
                variants.append({'drop_level_index': li})
        for v in variants:
            spec = _common_random(rng, d, k)
            spec['shape_index'] = si
            spec['seed'] = int(rng.integers(0, 2 ** 31))
            spec.update(v)
            out.append(spec)
    return out


def random_large_cases(rng, n, max_levels=6, max_leaves=40, max_cells=300):
    out = []
    for i in range(n):
        d = int(rng.integers(1, max_levels + 1))
        k = int(rng.integers(1, max_leaves + 1))
        spec = _common_random(rng, d, k)
        spec['n_levels'] = d
        spec['n_leaves'] = k
        spec['seed'] = int(rng.integers(0, 2 ** 31))
        if rng.random() < 0.3:
            spec["n_cells"] = int(rng.integers(min(41, max_cells), max_cells + 1))
            spec['chunk_size'] = int(rng.choice([10, 37, 100, 1000]))
        spec['n_genes'] = int(rng.integers(10, 80))
        r = rng.random()
        if d > 1 and r < 0.25:
            spec['flatten'] = True
        elif d > 1 and r < 0.6:
            spec['drop_level_index'] = int(rng.integers(0, d - 1))
        out.append(spec)
    return out


def features_of(spec, w=None):
    """feature tuple used to count distinct cases"""
    f = {
        'shape': spec.get('shape_index',
                          (spec.get('n_levels'), spec.get('n_leaves'))),
        'flatten': bool(spec.get('flatten')),
        'drop': spec.get('drop_level_index'),
        'cells': spec.get('n_cells'),
        'chunk': spec.get('chunk_size'),
        'proc': spec.get('n_processors'),
        'ru': spec.get('n_runners_up'),
        'iter': spec.get('bootstrap_iteration'),
        'factor': spec.get('bootstrap_factor'),
        'enc': spec.get('encoding'),
        'norm': spec.get('normalization'),
        'markers': spec.get('marker_class'),
        'minm': spec.get('min_markers'),
        'layout': spec.get('h5_layout'),
        'unsorted': spec.get('unsorted_indices') is not None,
        'qorder': spec.get('query_order'),
    }
    return f
