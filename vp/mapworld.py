"""
Generated "worlds" for the mapping stage: taxonomy model + reference
statistics file + marker table + query h5ad + configuration, all derived
deterministically from a JSON spec, and a driver that runs the real
``run_mapping`` on them and collects everything the monitors look at.
"""
import json
import os
import pathlib
import traceback

import anndata
import h5py
import numpy as np
import pandas as pd
import scipy.sparse

from vp import gen


CELL_ID_STYLES = ['plain', 'numeric', 'unicode', 'mixed']


def cell_ids(rng, n, style):
    ids = []
    for i in range(n):
        if style == 'plain':
            ids.append(f'cell_{i}')
        elif style == 'numeric':
            ids.append(str(1000 + 7 * i))
        elif style == 'unicode':
            ids.append(f'çell-{i}-ü')
        else:
            ids.append([f'c{i}', str(10 ** 6 + i), f'ß{i}', f'{i}.0',
                        f'0{i}'][i % 5])
    order = rng.permutation(n)
    return [ids[i] for i in order]


H5_LAYOUTS = ['cols', 'rows', 'tall', 'wide', 'small', 'gzip']


def relayout(path, key, layout):
    """
    rewrite the datasets of matrix `key` ('X' or 'layers/<name>') with a
    chosen HDF5 storage layout (same values, same attributes)
    """
    import h5py
    with h5py.File(path, 'a') as f:
        obj = f[key]
        if isinstance(obj, h5py.Dataset):
            data = obj[()]
            if data.size == 0:
                return
            nr, nc = data.shape
            kw = {
                'cols': {'chunks': (nr, 1)},
                'rows': {'chunks': (1, nc)},
                'tall': {'chunks': (nr, max(1, nc // 7))},
                'wide': {'chunks': (max(1, nr // 3), nc)},
                'small': {'chunks': (min(nr, 2), min(nc, 3))},
                'gzip': {'chunks': True, 'compression': 'gzip'},
            }[layout]
            attrs = dict(obj.attrs)
            del f[key]
            ds = f.create_dataset(key, data=data, **kw)
            for k, v in attrs.items():
                ds.attrs[k] = v
        else:
            for name in ('data', 'indices', 'indptr'):
                d = obj[name][()]
                if d.size == 0:
                    continue
                n = len(d)
                kw = {
                    'cols': {'chunks': (min(n, 3),)},
                    'tall': {'chunks': (min(n, 3),)},
                    'small': {'chunks': (1,)},
                    'rows': {'chunks': (n,)},
                    'wide': {'chunks': (n,)},
                    'gzip': {'chunks': True, 'compression': 'gzip'},
                }[layout]
                attrs = dict(obj[name].attrs)
                del obj[name]
                ds = obj.create_dataset(name, data=d, **kw)
                for k, v in attrs.items():
                    ds.attrs[k] = v


def write_h5ad(path, X, obs_names, var_names, encoding='dense',
               layer=None, obs_extra=None, x_dtype=None, h5_layout=None,
               unsorted_indices=None):
    """
    write a query / reference file with anndata (no dtype kwarg);
    unsorted_indices = seed: the minor indices of a CSR / CSC matrix are
    stored in shuffled order within each major slice (valid, non-canonical)
    """
    X = np.asarray(X)
    if x_dtype is not None:
        X = X.astype(x_dtype)
    if encoding == 'dense':
        mat = X
    elif encoding == 'csr':
        mat = scipy.sparse.csr_matrix(X)
    elif encoding == 'csc':
        mat = scipy.sparse.csc_matrix(X)
    else:
        raise ValueError(encoding)
    if unsorted_indices is not None and encoding in ('csr', 'csc'):
        prng = np.random.default_rng(unsorted_indices)
        mat.sort_indices()
        for i in range(len(mat.indptr) - 1):
            a, b = mat.indptr[i], mat.indptr[i + 1]
            if b - a > 1:
                p = prng.permutation(b - a)
                mat.indices[a:b] = mat.indices[a:b][p]
                mat.data[a:b] = mat.data[a:b][p]
        mat.has_sorted_indices = False
    obs = pd.DataFrame(index=pd.Index([str(o) for o in obs_names]))
    if obs_extra:
        for k, v in obs_extra.items():
            obs[k] = v
    var = pd.DataFrame(index=pd.Index([str(v) for v in var_names]))
    if layer is None:
        a = anndata.AnnData(X=mat, obs=obs, var=var)
    else:
        # X deliberately holds something else
        if scipy.sparse.issparse(mat):
            dummy = scipy.sparse.csr_matrix(mat.shape, dtype=np.float32)
        else:
            dummy = np.zeros(mat.shape, dtype=np.float32)
        a = anndata.AnnData(X=dummy, obs=obs, var=var,
                            layers={layer: mat})
    a.write_h5ad(path)
    if h5_layout is not None:
        relayout(path, 'X' if layer is None else f'layers/{layer}',
                 h5_layout)


def write_stats_file(path, model, genes, profiles, n_cells, rng,
                     with_cells=False, extras=True, tree_extras=None):
    """
    reference statistics file in the documented layout, written by hand:
    sum = mean * n_cells, rows addressed through a shuffled cluster_to_row.
    """
    leaves = model.leaves
    rows = rng.permutation(len(leaves))
    cluster_to_row = {lf: int(r) for lf, r in zip(leaves, rows)}
    n_genes = len(genes)
    summ = np.zeros((len(leaves), n_genes), dtype=float)
    sumsq = np.zeros((len(leaves), n_genes), dtype=float)
    nc = np.zeros(len(leaves), dtype=int)
    for lf in leaves:
        r = cluster_to_row[lf]
        nc[r] = n_cells[lf]
        summ[r] = profiles[lf] * n_cells[lf]
        sumsq[r] = (profiles[lf] ** 2 + 0.3) * n_cells[lf]
    tree = model.to_dict(with_cells=with_cells, extras=tree_extras)
    with h5py.File(path, 'w') as dst:
        dst.create_dataset(
            'metadata', data=json.dumps({'made_by': 'vp'}).encode('utf-8'))
        dst.create_dataset(
            'cluster_to_row',
            data=json.dumps(cluster_to_row).encode('utf-8'))
        dst.create_dataset(
            'col_names', data=json.dumps(list(genes)).encode('utf-8'))
        dst.create_dataset(
            'taxonomy_tree', data=json.dumps(tree).encode('utf-8'))
        dst.create_dataset('n_cells', data=nc)
        dst.create_dataset('sum', data=summ)
        if extras:
            dst.create_dataset('sumsq', data=sumsq)
            ge1 = np.minimum(nc[:, None],
                             (summ > 0).astype(int) * nc[:, None])
            dst.create_dataset('ge1', data=ge1)
            dst.create_dataset('gt1', data=ge1)
            dst.create_dataset('gt0', data=ge1)
    return cluster_to_row


def make_marker_table(rng, model, ref_genes, query_gene_set, klass,
                      min_markers, root_usable=True, kmin=1, kmax=10):
    """
    marker table over the *stored* taxonomy.

    classes
      complete : every parent gets its own list, each with >= 1 query gene
      sparse   : parents missing / empty / below min_markers (not the root)
      stale    : like sparse plus keys that are never consulted (unknown
                 nodes, single-child parents) whose genes are all outside
                 the query
      absentq  : lists also name genes that the query lacks
    All listed genes are reference genes.
    """
    ref_in_q = [g for g in ref_genes if g in query_gene_set]
    ref_not_q = [g for g in ref_genes if g not in query_gene_set]
    table = {}

    def draw_list(kmin, kmax, need_q=1, allow_notq=True):
        k = int(rng.integers(kmin, kmax + 1))
        k = max(k, need_q)
        nq = min(len(ref_in_q), max(need_q, int(rng.integers(k // 2, k + 1))))
        lst = list(rng.choice(ref_in_q, size=nq, replace=False)) \
            if nq > 0 else []
        rest = k - nq
        if rest > 0 and allow_notq and len(ref_not_q) > 0:
            lst += list(rng.choice(
                ref_not_q, size=min(rest, len(ref_not_q)), replace=False))
        rng.shuffle(lst)
        return [str(g) for g in lst]

    for parent in model.all_parents():
        key = model.parent_key(parent)
        n_children = len(model.children(*(parent if parent else
                                          (None, None))))
        if parent is None:
            table[key] = draw_list(kmin, kmax, need_q=1 if root_usable else 0,
                                   allow_notq=(klass != 'complete'))
            if not root_usable:
                table[key] = [g for g in table[key]
                              if g not in query_gene_set]
            continue
        if n_children < 2:
            # single child parents: listed or not, both legal
            r = rng.random()
            if r < 0.5:
                continue
            if klass == 'stale' and r < 0.8 and len(ref_not_q) > 0:
                table[key] = [str(g) for g in rng.choice(
                    ref_not_q, size=min(2, len(ref_not_q)), replace=False)]
            else:
                table[key] = draw_list(1, 4, need_q=1,
                                       allow_notq=False)
            continue
        if klass == 'complete':
            table[key] = draw_list(kmin, kmax, need_q=1, allow_notq=False)
        elif klass == 'absentq':
            table[key] = draw_list(max(2, kmin), kmax, need_q=1,
                                   allow_notq=True)
        else:
            r = rng.random()
            if r < 0.2:
                continue                      # missing parent
            elif r < 0.35:
                table[key] = []               # empty list
            elif r < 0.6:
                # fewer than min_markers in the query
                k = int(rng.integers(1, max(2, min_markers)))
                table[key] = draw_list(k, k, need_q=1, allow_notq=True)
            else:
                table[key] = draw_list(kmin, kmax, need_q=1, allow_notq=True)
    if klass == 'stale' and len(ref_not_q) > 0:
        table['nolevel/nonode'] = [str(ref_not_q[0])]
    if rng.random() < 0.3:
        # duplicates inside a list
        for key in list(table.keys()):
            if table[key] and rng.random() < 0.5:
                table[key] = table[key] + [table[key][0]]
    return table


DEFAULT_SPEC = {
    'seed': 0,
    'n_levels': 3, 'n_leaves': 6, 'shape_index': None,
    'n_genes': 24, 'n_cells': 12,
    'encoding': 'dense', 'normalization': 'log2CPM', 'x_dtype': 'float64',
    'layerless': True,
    'flatten': False, 'drop_level_index': None,
    'chunk_size': 5, 'n_processors': 2, 'n_runners_up': 2,
    'bootstrap_iteration': 10, 'bootstrap_factor': 0.7, 'min_markers': 3,
    'rng_seed': 11, 'marker_class': 'complete', 'separable': True,
    'cell_id_style': 'mixed', 'cloud_safe': False,
    'with_csv': True, 'with_hdf5': True, 'noise': 1.0,
    'collect': 'file',   # 'file' or 'manager' (direct call only)
    'max_gb': 1.0, 'n_extra_genes': None, 'extra_first': False,
    'h5_layout': None, 'level_pool': None, 'unsorted_indices': None,
    'full_cells': 0, 'query_order': None, 'flat_cells': 0,
    'root_only_cells': 0, 'wide_root': None,
}


class World(object):
    pass


def _pool(s):
    """level-name pool forced by the spec (None = drawn by the builder)"""
    i = s.get('level_pool')
    return None if i is None else gen.LEVEL_NAME_POOLS[i]


def build_world(spec, work):
    """materialise every input file of a mapping run under work/"""
    s = dict(DEFAULT_SPEC)
    s.update(spec)
    rng = np.random.default_rng(s['seed'])
    work = pathlib.Path(work)
    w = World()
    w.spec = s
    w.work = work
    for d in ('in', 'out', 'scratch', 'trace', 'cwd'):
        (work / d).mkdir(parents=True, exist_ok=True)

    # taxonomy
    if s.get('wide_root'):
        # a root with hundreds of children (two leaves each)
        forest = tuple(((), ()) for _ in range(int(s['wide_root'])))
        model = gen.build_from_shape(forest, 2, rng, level_pool=_pool(s),
                                     share_names=False)
    elif s.get('shape_index') is not None:
        shapes = gen.enumerate_shapes(4, 6)
        d, n, forest = shapes[s['shape_index']]
        model = gen.build_from_shape(forest, d, rng, level_pool=_pool(s))
    else:
        forest = gen.random_forest(rng, s['n_levels'], s['n_leaves'])
        model = gen.build_from_shape(forest, s['n_levels'], rng,
                                     level_pool=_pool(s))
    if s.get('nasty_names'):
        model = rename_nodes(model, rng, gen.CSV_NASTY_NAMES)
    if s.get('childless_node') and len(model.hierarchy) > 1:
        # validator-accepted oddity: an internal node without children
        li = int(rng.integers(0, len(model.hierarchy) - 1))
        lv = model.hierarchy[li]
        model.nodes[lv].append('EMPTY_NODE')
        if li > 0:
            up = model.hierarchy[li - 1]
            model.parent[lv]['EMPTY_NODE'] = model.nodes[up][
                int(rng.integers(len(model.nodes[up])))]
    w.model = model

    # genes
    n_genes = s['n_genes']
    ref_genes = gen.gene_names(rng, n_genes, prefix='g')
    w.ref_genes = ref_genes
    n_extra = int(rng.integers(0, 5))
    if s.get('n_extra_genes') is not None:
        n_extra = int(s['n_extra_genes'])
    extra_genes = [f'xq{i}' for i in range(n_extra)]
    # query keeps most reference genes
    keep = rng.random(n_genes) < 0.8
    if keep.sum() < 2:
        keep[:2] = True
    q_ref_genes = [g for g, k in zip(ref_genes, keep) if k]
    query_genes = q_ref_genes + extra_genes
    perm = rng.permutation(len(query_genes))
    query_genes = [query_genes[i] for i in perm]
    if s.get('extra_first'):
        # all the foreign genes first: markers sit at high column numbers
        query_genes = [g for g in query_genes if g.startswith('xq')] + \
            [g for g in query_genes if not g.startswith('xq')]
    w.query_genes = query_genes

    # profiles and statistics file
    profiles = gen.leaf_profiles(rng, model, n_genes,
                                 separable=s['separable'])
    w.profiles = profiles
    n_cells_ref = {lf: int(rng.integers(1, 30)) for lf in model.leaves}
    # reference cells named in the tree (documented format)
    cells = {}
    ctr = 0
    for lf in model.leaves:
        cells[lf] = [f'ref_{ctr + i}' for i in range(n_cells_ref[lf])]
        ctr += n_cells_ref[lf]
    model.cells = cells
    w.n_cells_ref = n_cells_ref
    w.stats_path = work / 'in' / 'stats.h5'
    tree_extras = None
    if s.get('name_mapper'):
        tree_extras = make_name_mapper(model, rng, s['name_mapper'])
    w.tree_extras = tree_extras
    w.cluster_to_row = write_stats_file(
        w.stats_path, model, ref_genes, profiles, n_cells_ref, rng,
        with_cells=bool(rng.random() < 0.5), tree_extras=tree_extras)

    # marker table
    table = make_marker_table(
        rng, model, ref_genes, set(query_genes), s['marker_class'],
        s['min_markers'], root_usable=s.get('root_usable', True),
        kmin=s.get('marker_kmin', 1), kmax=s.get('marker_kmax', 10))
    w.marker_table = table
    w.marker_path = work / 'in' / 'markers.json'
    tbl = dict(table)
    if rng.random() < 0.5:
        tbl['metadata'] = {'note': 'ignored'}
        tbl['log'] = ['ignored']
    w.marker_path.write_text(json.dumps(tbl))

    qo = s.get('query_order')
    if qo in ('reference', 'markers-interior-shuffled'):
        # the reference's own gene order (foreign genes last), optionally
        # with everything between the first and the last marker shuffled
        qset = set(query_genes)
        order = [g for g in ref_genes if g in qset] + \
            [g for g in query_genes if g not in set(ref_genes)]
        if qo == 'markers-interior-shuffled':
            allm = set()
            for k, v in table.items():
                allm |= set(v)
            mk = [i for i, g in enumerate(order) if g in allm]
            if len(mk) >= 4:
                inner = list(range(mk[0] + 1, mk[-1]))
                sh = [inner[i] for i in rng.permutation(len(inner))]
                order2 = list(order)
                for dst, src_i in zip(inner, sh):
                    order2[dst] = order[src_i]
                order = order2
        query_genes = order
        w.query_genes = query_genes

    # query
    n_cells = s['n_cells']
    raw = (s['normalization'] == 'raw')
    Xref, src = gen.cells_from_profiles(
        rng, profiles, model.leaves, n_cells, noise=s['noise'], raw=raw)
    # Xref columns are in reference gene order; build the query matrix in
    # query gene order with extra genes
    col_of = {g: i for i, g in enumerate(ref_genes)}
    Xq = np.zeros((n_cells, len(query_genes)), dtype=float)
    for j, g in enumerate(query_genes):
        if g in col_of:
            Xq[:, j] = Xref[:, col_of[g]]
        else:
            v = rng.uniform(0, 9, size=n_cells)
            if raw:
                v = np.floor(2 ** v)
            Xq[:, j] = v
    if s.get('full_cells'):
        # cells without a single zero (every gene stored explicitly)
        for i in range(min(int(s['full_cells']), n_cells)):
            z = Xq[i] == 0
            Xq[i, z] = np.floor(rng.uniform(1, 4, size=int(z.sum()))) \
                if raw else rng.uniform(0.1, 1.0, size=int(z.sum()))
    if s.get('root_only_cells'):
        # cells that express nothing but genes listed for the root alone:
        # they are routed by the root and are constant (all zero) on the
        # markers of every deeper parent
        deeper = set()
        for k, v in table.items():
            if k != 'None':
                deeper |= set(v)
        only = [j for j, g in enumerate(query_genes)
                if g in set(table.get('None', [])) and g not in deeper]
        if len(only) >= 2:
            for k in range(min(int(s['root_only_cells']), n_cells)):
                row = np.zeros(len(query_genes))
                vals = rng.uniform(1, 9, size=len(only))
                row[only] = np.floor(2 ** vals) if raw else vals
                Xq[k] = row
            w.root_only_cells = min(int(s['root_only_cells']), n_cells)
    if s.get('flat_cells'):
        # cells with one and the same non-zero value in every gene
        vals = [5.0, 3.0, 7.0, 0.1, 11.0, 2.0, 13.0, 1.0] if raw else \
            [3.7, 0.1, 5.3, 1.9, 9.01, 0.7, 2.2, 12.6]
        for k in range(min(int(s['flat_cells']), n_cells)):
            Xq[n_cells - 1 - k, :] = vals[k % len(vals)]
    if s.get('dup_rows'):
        # make some rows identical to others (C06)
        for _ in range(max(1, n_cells // 4)):
            a, b = rng.integers(0, n_cells, size=2)
            Xq[a] = Xq[b]
    x_dtype = s['x_dtype']
    if raw and x_dtype.startswith('float') is False:
        Xq = np.round(Xq)
    Xq = Xq.astype(x_dtype)
    w.Xq = Xq
    w.src_leaves = src
    w.cell_ids = cell_ids(rng, n_cells, s['cell_id_style'])
    w.query_path = work / 'in' / 'query.h5ad'
    write_h5ad(w.query_path, Xq, w.cell_ids, query_genes,
               encoding=s['encoding'], h5_layout=s.get('h5_layout'),
               unsorted_indices=s.get('unsorted_indices'))

    # run configuration
    drop_level = None
    if s.get('drop_level_index') is not None and \
            len(model.hierarchy) > 1:
        drop_level = model.hierarchy[
            s['drop_level_index'] % (len(model.hierarchy) - 1)]
    if s.get('drop_level_name') is not None:
        drop_level = s['drop_level_name']
    w.drop_level = drop_level
    w.config = make_config(w, s)
    return w


def make_config(w, s):
    work = w.work
    return {
        'query_path': str(w.query_path),
        'extended_result_path': str(work / 'out' / 'result.json'),
        'extended_result_dir': None,
        'csv_result_path': (str(work / 'out' / 'result.csv')
                            if s['with_csv'] else None),
        'hdf5_result_path': (str(work / 'out' / 'result.h5')
                             if s['with_hdf5'] else None),
        'summary_metadata_path': None,
        'obsm_key': None,
        'obsm_clobber': False,
        'log_path': str(work / 'out' / 'log.txt'),
        'tmp_dir': str(work / 'scratch'),
        'drop_level': w.drop_level,
        'flatten': bool(s['flatten']),
        'max_gb': float(s.get('max_gb', 1.0)),
        'cloud_safe': bool(s['cloud_safe']),
        'map_to_ensembl': False,
        'precomputed_stats': {'path': str(w.stats_path)},
        'query_markers': {'serialized_lookup': str(w.marker_path)},
        'type_assignment': {
            'bootstrap_iteration': int(s['bootstrap_iteration']),
            'bootstrap_factor': float(s['bootstrap_factor']),
            'bootstrap_factor_lookup': None,
            'chunk_size': int(s['chunk_size']),
            'normalization': s['normalization'],
            'rng_seed': int(s['rng_seed']),
            'n_runners_up': int(s['n_runners_up']),
            'min_markers': int(s['min_markers']),
            'n_processors': int(s['n_processors']),
        },
    }


def rename_nodes(model, rng, pool):
    """rename some nodes with names that need CSV quoting"""
    new_nodes = {}
    mapping = {}
    for lv in model.hierarchy:
        names = list(model.nodes[lv])
        avail = list(pool)
        rng.shuffle(avail)
        mapping[lv] = {}
        for n in names:
            if avail and rng.random() < 0.6:
                mapping[lv][n] = avail.pop()
            else:
                mapping[lv][n] = n
        new_nodes[lv] = [mapping[lv][n] for n in names]
    new_parent = {}
    for i, lv in enumerate(model.hierarchy[1:], start=1):
        pl = model.hierarchy[i - 1]
        new_parent[lv] = {mapping[lv][c]: mapping[pl][p]
                          for c, p in model.parent[lv].items()}
    return gen.TaxModel(model.hierarchy, new_nodes, new_parent)


def make_name_mapper(model, rng, mode):
    """
    name tables in the documented layout: name_mapper[level][node] ->
    {'name':..., 'alias':...} and hierarchy_mapper level -> readable name.
    mode: 'full' | 'partial'
    """
    nm = {}
    for lv in model.hierarchy:
        nm[lv] = {}
        for n in model.nodes[lv]:
            if mode == 'partial' and rng.random() < 0.4:
                continue
            entry = {}
            if mode == 'full' or rng.random() < 0.7:
                entry['name'] = f'Name of {n} ({lv})'
            if lv == model.leaf_level and (mode == 'full'
                                           or rng.random() < 0.7):
                entry['alias'] = str(int(rng.integers(1, 10000)))
            nm[lv][n] = entry
    out = {'name_mapper': nm}
    if mode == 'full' or rng.random() < 0.5:
        hm = {}
        for lv in model.hierarchy:
            if mode == 'full' or rng.random() < 0.6:
                hm[lv] = f'{lv}_readable'
        out['hierarchy_mapper'] = hm
    return out


import contextlib
import sys


@contextlib.contextmanager
def capture_stderr(path):
    """fd-level redirect so that tracebacks of forked workers are kept"""
    sys.stderr.flush()
    saved_fd = os.dup(2)
    fd = os.open(path, os.O_WRONLY | os.O_CREAT | os.O_TRUNC, 0o644)
    os.dup2(fd, 2)
    os.close(fd)
    try:
        yield
    finally:
        sys.stderr.flush()
        os.dup2(saved_fd, 2)
        os.close(saved_fd)


def read_trace(trace_dir):
    """events per pid file, in file order"""
    out = {}
    for p in sorted(pathlib.Path(trace_dir).glob('*.jsonl')):
        evs = []
        for line in p.read_text().splitlines():
            evs.append(json.loads(line))
        out[p.stem] = evs
    return out


def run_world(w, trace=True, plan=None, config=None):
    """
    run the real run_mapping on the world; returns a dict with the
    exception (if any), parsed JSON output, trace events and proxy log.
    """
    from cell_type_mapper.cli.from_specified_markers import run_mapping
    from vp import inject
    config = config if config is not None else w.config
    env_before = {k: os.environ.get(k) for k in
                  ('CELL_TYPE_MAPPER_VERIF', 'CELL_TYPE_MAPPER_VERIF_TRACE')}
    trace_dir = w.work / 'trace'
    for p in trace_dir.glob('*.jsonl'):
        p.unlink()
    if trace:
        os.environ['CELL_TYPE_MAPPER_VERIF'] = '1'
        os.environ['CELL_TYPE_MAPPER_VERIF_TRACE'] = str(trace_dir)
    else:
        os.environ.pop('CELL_TYPE_MAPPER_VERIF', None)
    if plan is not None:
        inject.install(plan, ['cell_type_mapper.type_assignment.election'],
                       mid_target=plan.get('mid_target'))
    cwd = os.getcwd()
    os.chdir(w.work / 'cwd')
    exc = None
    tb = None
    stderr_path = w.work / 'stderr.txt'
    import sys
    sys.stderr.flush()
    saved_fd = os.dup(2)
    fd = os.open(stderr_path, os.O_WRONLY | os.O_CREAT | os.O_TRUNC, 0o644)
    os.dup2(fd, 2)
    os.close(fd)
    try:
        import io
        import contextlib
        sink = io.StringIO()
        with contextlib.redirect_stdout(sink):
            run_mapping(
                config=config,
                output_path=config['extended_result_path'],
                log_path=config['log_path'],
                hdf5_output_path=config['hdf5_result_path'])
    except BaseException as e:      # noqa: the code under test may raise
        if isinstance(e, (KeyboardInterrupt, SystemExit)):
            raise
        exc = e
        tb = traceback.format_exc()
    finally:
        sys.stderr.flush()
        os.dup2(saved_fd, 2)
        os.close(saved_fd)
        os.chdir(cwd)
        codes, events = (None, None)
        if plan is not None:
            codes, events = inject.collect()
            inject.uninstall()
        for k, v in env_before.items():
            if v is None:
                os.environ.pop(k, None)
            else:
                os.environ[k] = v
    out = {'exception': exc, 'traceback': tb, 'exit_codes': codes,
           'inject_events': events}
    try:
        out['stderr'] = stderr_path.read_text(errors='replace')
    except Exception:
        out['stderr'] = ''
    jp = pathlib.Path(config['extended_result_path'])
    out['json'] = None
    if jp.exists():
        try:
            out['json'] = json.loads(jp.read_text())
        except Exception as e:
            out['json_error'] = repr(e)
    out['trace'] = read_trace(trace_dir) if trace else {}
    return out


def derive_world(w, name, Xq=None, cell_ids=None, query_genes=None,
                 encoding=None, normalization=None, model=None,
                 stats_path=None, marker_table=None, ta_updates=None,
                 cfg_updates=None, spec_updates=None, h5_layout='inherit'):
    """
    a second world sharing w's inputs except for what is overridden; it gets
    its own out / scratch / trace / cwd directories under w.work/<name>
    """
    import copy
    d = World()
    d.__dict__.update(w.__dict__)
    d.spec = dict(w.spec)
    if spec_updates:
        d.spec.update(spec_updates)
    d.work = w.work / name
    for sub in ('in', 'out', 'scratch', 'trace', 'cwd'):
        (d.work / sub).mkdir(parents=True, exist_ok=True)
    new_query = any(x is not None for x in (Xq, cell_ids, query_genes,
                                            encoding)) \
        or h5_layout != 'inherit'
    if h5_layout != 'inherit':
        d.spec['h5_layout'] = h5_layout
    if Xq is not None:
        d.Xq = Xq
    if cell_ids is not None:
        d.cell_ids = list(cell_ids)
    if query_genes is not None:
        d.query_genes = list(query_genes)
    if encoding is not None:
        d.spec['encoding'] = encoding
    if normalization is not None:
        d.spec['normalization'] = normalization
    if new_query:
        d.query_path = d.work / 'in' / 'query.h5ad'
        write_h5ad(d.query_path, d.Xq, d.cell_ids, d.query_genes,
                   encoding=d.spec['encoding'],
                   h5_layout=d.spec.get('h5_layout'),
                   unsorted_indices=d.spec.get('unsorted_indices'))
    if model is not None:
        d.model = model
    if stats_path is not None:
        d.stats_path = stats_path
    if marker_table is not None:
        d.marker_table = marker_table
        d.marker_path = d.work / 'in' / 'markers.json'
        d.marker_path.write_text(json.dumps(marker_table))
    d.config = make_config(d, d.spec)
    d.config['drop_level'] = w.config['drop_level']
    d.config['type_assignment'] = copy.deepcopy(
        w.config['type_assignment'])
    d.config['type_assignment']['normalization'] = d.spec['normalization']
    if ta_updates:
        d.config['type_assignment'].update(ta_updates)
    if cfg_updates:
        d.config.update(cfg_updates)
    d.drop_level = d.config['drop_level']
    return d


def strip_volatile(js):
    """the part of a JSON output that counts as 'results'"""
    return {k: js[k] for k in js
            if k not in ('log', 'metadata', 'config')}
