"""
Seeded, replayable generators.  Everything here is independent of the code
under test: taxonomies are kept as a parent-pointer model, matrices stay in
memory next to the files written from them.
"""
import itertools
import json
import functools

import numpy as np


# ---------------------------------------------------------------- taxonomies

class TaxModel(object):
    """
    Parent-pointer model of a taxonomy.

    hierarchy : list of level names, coarse -> fine
    nodes     : level -> list of node names (creation order)
    parent    : level -> node -> parent node (levels[1:])
    cells     : leaf -> list of cell ids
    """

    def __init__(self, hierarchy, nodes, parent, cells=None):
        self.hierarchy = list(hierarchy)
        self.nodes = {lv: list(nodes[lv]) for lv in hierarchy}
        self.parent = {lv: dict(parent[lv]) for lv in hierarchy[1:]}
        self.cells = {leaf: list((cells or {}).get(leaf, []))
                      for leaf in self.nodes[self.leaf_level]}

    # -- basic queries
    @property
    def leaf_level(self):
        return self.hierarchy[-1]

    @property
    def leaves(self):
        return list(self.nodes[self.leaf_level])

    def level_index(self, level):
        return self.hierarchy.index(level)

    def children(self, level, node):
        """level None -> top level nodes"""
        if level is None:
            return list(self.nodes[self.hierarchy[0]])
        i = self.level_index(level)
        if i == len(self.hierarchy) - 1:
            return []
        cl = self.hierarchy[i + 1]
        return [c for c in self.nodes[cl] if self.parent[cl][c] == node]

    def ancestor(self, level, node, target_level):
        """ancestor of (level,node) at target_level (coarser or equal)"""
        i = self.level_index(level)
        j = self.level_index(target_level)
        assert j <= i
        cur = node
        for k in range(i, j, -1):
            cur = self.parent[self.hierarchy[k]][cur]
        return cur

    def ancestors(self, level, node):
        """dict level -> ancestor for all strictly coarser levels"""
        i = self.level_index(level)
        return {self.hierarchy[j]: self.ancestor(level, node,
                                                 self.hierarchy[j])
                for j in range(i)}

    def leaves_under(self, level, node):
        if level is None:
            return self.leaves
        return [lf for lf in self.leaves
                if self.ancestor(self.leaf_level, lf, level) == node]

    def path_of_leaf(self, leaf):
        return {lv: self.ancestor(self.leaf_level, leaf, lv)
                for lv in self.hierarchy}

    def all_parents(self):
        """None plus every (level,node) of the non-leaf levels"""
        out = [None]
        for lv in self.hierarchy[:-1]:
            for n in self.nodes[lv]:
                out.append((lv, n))
        return out

    def parent_key(self, parent):
        return 'None' if parent is None else f'{parent[0]}/{parent[1]}'

    # -- transformations (on the model, independent of the repo)
    def drop_level(self, level):
        i = self.level_index(level)
        assert i < len(self.hierarchy) - 1
        new_h = [lv for lv in self.hierarchy if lv != level]
        new_nodes = {lv: self.nodes[lv] for lv in new_h}
        new_parent = {}
        for k, lv in enumerate(new_h[1:], start=1):
            new_parent[lv] = {}
            for n in self.nodes[lv]:
                new_parent[lv][n] = self.ancestor(lv, n, new_h[k - 1])
        return TaxModel(new_h, new_nodes, new_parent, self.cells)

    def flatten(self):
        lv = self.leaf_level
        return TaxModel([lv], {lv: self.nodes[lv]}, {}, self.cells)

    # -- serialisation in the repository's documented format
    def to_dict(self, with_cells=True, rng=None, extras=None):
        d = {'hierarchy': list(self.hierarchy)}
        for i, lv in enumerate(self.hierarchy[:-1]):
            d[lv] = {}
            for n in self.nodes[lv]:
                d[lv][n] = self.children(lv, n)
        d[self.leaf_level] = {
            lf: (list(self.cells[lf]) if with_cells else [])
            for lf in self.leaves}
        if extras:
            d.update(extras)
        return d

    def shape_signature(self):
        """canonical unordered shape (nested sorted tuples)"""
        def sig(level, node):
            i = self.level_index(level)
            if i == len(self.hierarchy) - 1:
                return ()
            return tuple(sorted(sig(self.hierarchy[i + 1], c)
                                for c in self.children(level, node)))
        return tuple(sorted(sig(self.hierarchy[0], n)
                            for n in self.nodes[self.hierarchy[0]]))


# shapes: a forest of depth d is a sorted tuple of trees; a tree of depth 1
# is (), a tree of depth d>1 is a non-empty forest of depth d-1

@functools.lru_cache(maxsize=None)
def _trees(depth, n_leaves):
    """all unordered trees with the given depth and number of leaves"""
    if depth == 1:
        return [()] if n_leaves == 1 else []
    return list(_forests(depth - 1, n_leaves))


@functools.lru_cache(maxsize=None)
def _forests(depth, n_leaves):
    """all unordered non-empty forests of trees of equal depth"""
    # enumerate multisets of trees with total leaves n_leaves
    # order trees canonically by (leaf count, tree)
    catalog = []
    for k in range(1, n_leaves + 1):
        for t in _trees(depth, k):
            catalog.append((k, t))
    catalog.sort()
    out = []

    def rec(start, remaining, acc):
        if remaining == 0:
            if acc:
                out.append(tuple(sorted(acc)))
            return
        for i in range(start, len(catalog)):
            k, t = catalog[i]
            if k > remaining:
                continue
            acc.append(t)
            rec(i, remaining - k, acc)
            acc.pop()
    rec(0, n_leaves, [])
    return tuple(sorted(set(out)))


def enumerate_shapes(max_levels=4, max_leaves=6):
    """list of (n_levels, n_leaves, forest) for every unordered shape"""
    out = []
    for d in range(1, max_levels + 1):
        for n in range(1, max_leaves + 1):
            for f in _forests(d, n):
                out.append((d, n, f))
    return out


LEVEL_NAME_POOLS = [
    ['class', 'subclass', 'supertype', 'cluster', 'subcluster', 'leafy'],
    ['L3', 'L1', 'L2', 'L0', 'L9', 'L5'],
    ['zeta', 'alpha', 'mid', 'beta', 'q', 'a'],
    # every name a proper prefix of the next ones
    ['type', 'type_fine', 'type_finer', 'type_finest', 'type_finest_x',
     'type_finest_xy'],
]

NODE_NAME_POOL = [
    '10', '9', '1', 'b', 'A', 'a', 'Z', 'n2', 'n10', 'n1', 'x_1', 'x_10',
    'glut', 'gaba', 'astro', '07', '7', 'B', 'c', 'M', '100', '2', 'aa',
    'Ab', 'zz', 'k', 'K', 'q0', 'q00', 'w', 'e', 'r', 't', 'y', 'u', 'i',
    'o', 'p', 's', 'd', 'f', 'g', 'h', 'j', 'l', 'z', 'x', 'v', 'nn', 'm',
    'CS01', 'CS10', 'CS02', 'CS1', 'T1', 'T10', 'T2', 'T20', 'T3', 'T30',
    # labels with a slash, as in real taxonomies
    'L2/3 IT', 'L5/6 NP', 'Sst/Chodl', 'x/y/z']

CSV_NASTY_NAMES = [
    'a,b', 'say "hi"', 'x#y', '# lead', 'ünï', "it's", 'semi;colon',
    'tab_t', ' lead', 'trail ', 'new-line', 'c,"d"', 'é,ç', '0.50', '1e3']


def _pick_names(rng, k, pool, used=None):
    names = []
    pool = list(pool)
    rng.shuffle(pool)
    i = 0
    ctr = 0
    while len(names) < k:
        if i < len(pool):
            cand = pool[i]
            i += 1
        else:
            ctr += 1
            cand = f'{pool[ctr % len(pool)]}_{ctr}'
        if cand in names:
            continue
        if used is not None and cand in used:
            continue
        names.append(cand)
    return names


def build_from_shape(forest, n_levels, rng, level_pool=None,
                     node_pool=None, share_names=True):
    """materialise an unordered shape with shuffled, non-alphabetical names"""
    if level_pool is None:
        level_pool = LEVEL_NAME_POOLS[int(rng.integers(len(LEVEL_NAME_POOLS)))]
    if node_pool is None:
        node_pool = NODE_NAME_POOL
    hierarchy = list(level_pool[:n_levels])
    nodes = {lv: [] for lv in hierarchy}
    parent = {lv: {} for lv in hierarchy[1:]}
    # count nodes per level
    per_level = {i: [] for i in range(n_levels)}   # list of (parent_idx,)

    def walk(tree_list, depth, parent_name):
        trees = list(tree_list)
        order = rng.permutation(len(trees))
        for oi in order:
            per_level[depth].append((parent_name, trees[oi]))

    walk(forest, 0, None)
    used_all = set()
    for depth in range(n_levels):
        lv = hierarchy[depth]
        entries = per_level[depth]
        names = _pick_names(rng, len(entries), node_pool,
                            used=None if share_names else used_all)
        used_all.update(names)
        # creation order shuffled
        for name, (pname, tree) in zip(names, entries):
            nodes[lv].append(name)
            if depth > 0:
                parent[lv][name] = pname
            if depth < n_levels - 1:
                trees = list(tree)
                order = rng.permutation(len(trees))
                for oi in order:
                    per_level[depth + 1].append((name, trees[oi]))
        # shuffle the node order at this level so that siblings are not
        # contiguous and creation order is not alphabetical
        perm = rng.permutation(len(nodes[lv]))
        nodes[lv] = [nodes[lv][i] for i in perm]
    return TaxModel(hierarchy, nodes, parent)


def random_forest(rng, n_levels, n_leaves):
    """random unordered shape with the given depth and leaf count"""
    # top-down: assign leaves to groups recursively
    def tree(depth, n):
        if depth == 1:
            assert n == 1
            return ()
        return forest(depth - 1, n)

    def forest(depth, n):
        if depth == 1:
            return tuple(() for _ in range(n))
        # split n leaves into k>=1 groups
        k = int(rng.integers(1, min(n, 5) + 1))
        if rng.random() < 0.15:
            k = 1
        cuts = sorted(rng.choice(np.arange(1, n), size=k - 1,
                                 replace=False).tolist()) if k > 1 else []
        sizes = [b - a for a, b in zip([0] + cuts, cuts + [n])]
        return tuple(sorted(tree(depth, s) for s in sizes))
    return forest(n_levels, n_leaves)


def random_tax(rng, n_levels=None, n_leaves=None, **kw):
    if n_levels is None:
        n_levels = int(rng.integers(1, 6))
    if n_leaves is None:
        n_leaves = int(rng.integers(1, 25))
    f = random_forest(rng, n_levels, n_leaves)
    return build_from_shape(f, n_levels, rng, **kw)


# ---------------------------------------------------------------- gene names

def gene_names(rng, n, prefix='g'):
    width = rng.integers(1, 4)
    names = [f'{prefix}{i:0{width}d}' for i in range(n)]
    rng.shuffle(names)
    return names


# ---------------------------------------------------------------- profiles

def leaf_profiles(rng, model, n_genes, separable=True):
    """
    log2(CPM+1)-like mean profile per leaf, built so that siblings share a
    base pattern (hierarchical structure) but differ; values >= 0, with
    zeros.
    """
    base = rng.uniform(0, 8, size=n_genes)
    prof = {}

    def rec(level_idx, node, vec):
        lv = model.hierarchy[level_idx]
        scale = 4.0 if separable else 0.6
        mine = vec + rng.normal(0, scale, size=n_genes) * \
            (rng.random(n_genes) < 0.5)
        if level_idx == len(model.hierarchy) - 1:
            v = np.clip(mine, 0, 14)
            v[rng.random(n_genes) < 0.15] = 0.0
            prof[node] = v
            return
        for c in model.children(lv, node):
            rec(level_idx + 1, c, mine)
    for top in model.nodes[model.hierarchy[0]]:
        rec(0, top, base)
    return prof


def cells_from_profiles(rng, profiles, leaves, n_cells, noise=1.0,
                        raw=False, dtype=None):
    """
    query / reference cells drawn around leaf profiles.
    returns X (n_cells, n_genes) and the list of source leaves.
    raw=True -> non-negative integer-valued counts.
    """
    src = [leaves[int(rng.integers(len(leaves)))] for _ in range(n_cells)]
    n_genes = len(next(iter(profiles.values())))
    X = np.zeros((n_cells, n_genes), dtype=float)
    for i, lf in enumerate(src):
        v = profiles[lf] + rng.normal(0, noise, size=n_genes)
        v = np.clip(v, 0, 16)
        v[rng.random(n_genes) < 0.2] = 0.0
        if raw:
            v = np.floor(np.power(2.0, v) - 1.0)
            v = np.clip(v, 0, 60000)
        X[i] = v
    if raw:
        X = np.round(X)
    if dtype is not None:
        X = X.astype(dtype)
    return X, src


# ---------------------------------------------------------------- oracles

def log2cpm(X):
    """independent log2(CPM+1) in float64"""
    X = np.asarray(X, dtype=np.float64)
    s = X.sum(axis=1, keepdims=True)
    s = np.where(s > 0, s, 1.0)
    return np.log2(1.0 + 1.0e6 * X / s)


def jdump(o):
    return json.dumps(o, sort_keys=True, default=str)
