"""
Record-only runtime contracts (icontract) on real repository functions.

Conditions never raise: a contract failing inside a forked worker would only
surface as "exit code 1" and lose the witness.  Each evaluation appends one
short line to $VP_CONTRACT_LOG ("<name> ok" or "<name> FAIL <json>"), with a
single write() on an O_APPEND descriptor so lines of forked workers never
interleave.  Zero evaluations of a contract a verdict depends on makes that
verdict inconclusive.
"""
import json
import os

import numpy as np

_INSTALLED = {'done': False}


def _rec(name, ok, detail=None):
    path = os.environ.get('VP_CONTRACT_LOG')
    if not path:
        return
    if ok:
        line = f'{name} ok\n'
    else:
        line = f'{name} FAIL {json.dumps(detail, default=str)[:2000]}\n'
    fd = os.open(path, os.O_WRONLY | os.O_CREAT | os.O_APPEND, 0o644)
    try:
        os.write(fd, line.encode('utf-8'))
    finally:
        os.close(fd)


def read_log(path):
    counts = {}
    fails = []
    if not os.path.exists(path):
        return counts, fails
    for line in open(path, errors='replace'):
        parts = line.rstrip('\n').split(' ', 2)
        if len(parts) < 2:
            continue
        name = parts[0]
        counts[name] = counts.get(name, 0) + 1
        if parts[1] == 'FAIL':
            fails.append((name, parts[2] if len(parts) > 2 else ''))
    return counts, fails


# ----------------------------------------------------------- conditions

def choose_node_post(result, query_gene_data, reference_types,
                     bootstrap_iteration, n_assignments):
    try:
        assign, frac, corr, runners = result
        n = query_gene_data.shape[0]
        types = set(reference_types)
        problems = []
        if not (len(assign) == len(frac) == len(corr) == len(runners) == n):
            problems.append('length mismatch')
        k_expected = min(n_assignments, len(types)) - 1
        for i in range(n):
            v = frac[i] * bootstrap_iteration
            if abs(v - round(v)) > 1e-6 or not (0 < frac[i] <= 1):
                problems.append(f'row {i}: winner share {frac[i]}')
            if assign[i] not in types:
                problems.append(f'row {i}: winner {assign[i]} not a type')
            if len(runners[i]) != k_expected:
                problems.append(
                    f'row {i}: {len(runners[i])} runner-up slots, '
                    f'expected {k_expected}')
            tot = frac[i]
            prev = frac[i]
            names = [assign[i]]
            for (name, valid, c, p) in runners[i]:
                if bool(valid) != bool(p > 0):
                    problems.append(f'row {i}: valid flag {valid} p {p}')
                if p > prev + 1e-12:
                    problems.append(f'row {i}: runner-up order {p}>{prev}')
                prev = p
                tot += p
                if valid:
                    if name in names:
                        problems.append(f'row {i}: repeated {name}')
                    names.append(name)
                    if not (-1 - 1e-9 <= c <= 1 + 1e-9):
                        problems.append(f'row {i}: corr {c}')
            if tot > 1 + 1e-9:
                problems.append(f'row {i}: total {tot}')
            if k_expected == len(types) - 1 and abs(tot - 1) > 1e-9:
                problems.append(f'row {i}: all types listed, total {tot}')
            if len(problems) > 5:
                break
        _rec('choose_node', not problems, problems)
    except Exception as exc:      # a monitor bug must not change behaviour
        _rec('choose_node_monitor_error', False, repr(exc))
    return True


def tally_votes_post(result, query_gene_data, reference_gene_data,
                     bootstrap_iteration):
    try:
        votes, corr_sum = result
        problems = []
        if votes.shape != (query_gene_data.shape[0],
                           reference_gene_data.shape[0]):
            problems.append(f'shape {votes.shape}')
        if (votes < 0).any():
            problems.append('negative votes')
        rs = votes.sum(axis=1)
        if not (rs == bootstrap_iteration).all():
            problems.append(f'row vote totals {rs[:5].tolist()} != '
                            f'{bootstrap_iteration}')
        if (np.abs(corr_sum) > votes + 1e-6).any():
            problems.append('|corr_sum| exceeds votes')
        _rec('tally_votes', not problems, problems)
    except Exception as exc:
        _rec('tally_votes_monitor_error', False, repr(exc))
    return True


def convert_to_cpm_post(result, data):
    try:
        problems = []
        d = np.asarray(data, dtype=float)
        r = np.asarray(result, dtype=float)
        if r.shape != d.shape:
            problems.append(f'shape {r.shape} vs {d.shape}')
        else:
            rs = d.sum(axis=1)
            out = r.sum(axis=1)
            want = np.where(rs > 0, 1.0e6, 0.0)
            tol = 1e-2 if np.asarray(data).dtype == np.float32 else 1e-4
            if not np.allclose(out, want, rtol=0, atol=tol * 1e2):
                problems.append(f'row sums {out[:4].tolist()}')
        _rec('convert_to_cpm', not problems, problems)
    except Exception as exc:
        _rec('convert_to_cpm_monitor_error', False, repr(exc))
    return True


def taxonomy_tree_invariant(self):
    """children / parents mutually inverse, leaves partitioned"""
    try:
        problems = []
        data = self._data
        hier = data['hierarchy']
        for pl, cl in zip(hier[:-1], hier[1:]):
            seen = {}
            for p in data[pl]:
                for c in data[pl][p]:
                    if c in seen and seen[c] != p:
                        problems.append(f'{cl}:{c} has parents {seen[c]},{p}')
                    seen[c] = p
                    if c not in data[cl]:
                        problems.append(f'{cl}:{c} listed but missing')
                    elif self._child_to_parent[cl].get(c) != p:
                        problems.append(f'child_to_parent[{cl}][{c}] != {p}')
            for c in data[cl]:
                if c not in seen:
                    problems.append(f'{cl}:{c} is an orphan')
        _rec('taxonomy_tree_invariant', not problems, problems[:5])
    except Exception as exc:
        _rec('taxonomy_tree_invariant_monitor_error', False, repr(exc))
    return True


def install():
    """rebind module attributes (and from-imports) to contracted versions"""
    if _INSTALLED['done']:
        return
    import icontract
    import cell_type_mapper.type_assignment.election as election
    import cell_type_mapper.cell_by_gene.utils as cbg_utils
    import cell_type_mapper.cell_by_gene.cell_by_gene as cbg
    import cell_type_mapper.taxonomy.taxonomy_tree as tt

    class ContractBroken(Exception):
        pass

    election.choose_node = icontract.ensure(
        choose_node_post, error=ContractBroken)(election.choose_node)
    election.tally_votes = icontract.ensure(
        tally_votes_post, error=ContractBroken)(election.tally_votes)
    new_cpm = icontract.ensure(
        convert_to_cpm_post, error=ContractBroken)(cbg_utils.convert_to_cpm)
    cbg_utils.convert_to_cpm = new_cpm
    cbg.convert_to_cpm = new_cpm          # bound by `from ... import`
    # class invariant, checked after __init__ and public methods
    orig_init = tt.TaxonomyTree.__init__

    def init_and_check(self, data):
        orig_init(self, data)
        taxonomy_tree_invariant(self)
    tt.TaxonomyTree.__init__ = init_and_check
    _INSTALLED['done'] = True
