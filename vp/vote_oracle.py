"""
Offline checker over the guarded trace of a mapping run (C02, C08, C18).

Recomputes every vote from the input files and the recorded draws:
query matrix (the generator's in-memory copy of what anndata wrote) ->
float64 -> own log2(CPM+1) if declared raw; leaf means = sum[row]/n_cells[row]
through the statistics file's own cluster_to_row / col_names; gene columns
selected BY NAME in both; Pearson in longdouble.
"""
import json

import h5py
import numpy as np

from vp import gen, oracles

V = oracles.V


def read_leaf_means(stats_path):
    with h5py.File(stats_path, 'r') as src:
        c2r = json.loads(src['cluster_to_row'][()].decode('utf-8'))
        cols = json.loads(src['col_names'][()].decode('utf-8'))
        n = src['n_cells'][()]
        s = src['sum'][()]
    means = {}
    for leaf, row in c2r.items():
        means[leaf] = s[row].astype(np.float64) / max(1, int(n[row]))
    return means, cols


def pearson_matrix(Q, R):
    """
    longdouble Pearson of every row of Q against every row of R.
    returns corr (nq, nr), q_const (nq,), r_const (nr,)
    constant vectors give 0 (the code's documented convention)
    """
    Q = np.asarray(Q, dtype=np.longdouble)
    R = np.asarray(R, dtype=np.longdouble)
    Qc = Q - Q.mean(axis=1, keepdims=True)
    Rc = R - R.mean(axis=1, keepdims=True)
    qn = np.sqrt((Qc ** 2).sum(axis=1))
    rn = np.sqrt((Rc ** 2).sum(axis=1))
    scale_q = np.maximum(np.abs(Q).max(axis=1), 1e-300)
    scale_r = np.maximum(np.abs(R).max(axis=1), 1e-300)
    q_const = qn <= 1e-12 * scale_q * np.sqrt(Q.shape[1])
    r_const = rn <= 1e-12 * scale_r * np.sqrt(R.shape[1])
    qn = np.where(q_const, 1.0, qn)
    rn = np.where(r_const, 1.0, rn)
    Qc[q_const] = 0
    Rc[r_const] = 0
    corr = (Qc / qn[:, None]) @ (Rc / rn[:, None]).T
    return corr.astype(np.float64), q_const, r_const


def expected_subset_sizes(factor, n):
    """
    max(1, round(f*n)) with "round" as Python and numpy define it on the
    double product f*n (an exact .5 goes to the even neighbour).  When the
    product is within 1e-9 of a .5 without being one, both neighbours are
    allowed (different but equally valid ways of forming the product).
    """
    x = factor * n
    lo = int(np.floor(x))
    frac = x - lo
    if frac == 0.5:
        cands = {int(round(x))}
    elif abs(frac - 0.5) < 1e-9:
        cands = {lo, lo + 1}
    else:
        cands = {int(np.floor(x + 0.5))}
    return {max(1, c) for c in cands}


class TraceError(Exception):
    pass


def parse_pid_events(events):
    """chunk -> [visit -> node -> draw*]* ; returns list of chunk dicts"""
    chunks = []
    cur = None
    visit = None
    for e in events:
        k = e['kind']
        if k == 'chunk':
            cur = {'r0': e['r0'], 'r1': e['r1'], 'cell_ids': e['cell_ids'],
                   'visits': []}
            chunks.append(cur)
        elif k == 'visit':
            if cur is None:
                raise TraceError('visit before chunk')
            visit = {'parent': e['parent'], 'rows': e['rows'],
                     'factor': e['factor'], 'iterations': e['iterations'],
                     'node': None, 'draws': []}
            cur['visits'].append(visit)
        elif k == 'node':
            if visit is None or visit['node'] is not None:
                raise TraceError('node event without a fresh visit')
            visit['node'] = e
        elif k == 'draw':
            if visit is None or visit['node'] is None:
                raise TraceError('draw before node')
            visit['draws'].append(e)
    return chunks


def check_votes(w, results, trace, counters, dontcare, tol=None,
                check_outputs=True, ambiguous_out=None, tie=None):
    """
    returns (violations, per_visit info list).  counters / dontcare are
    updated in place.
    """
    out = []
    red = oracles.reduced_model(w)
    cfg = w.config['type_assignment']
    n_iter = cfg['bootstrap_iteration']
    n_ru = cfg['n_runners_up']
    is32 = str(w.Xq.dtype) == 'float32'
    if tol is None:
        tol = 2e-5 if is32 else 1e-9
    if tie is None:
        tie = 1e-5 if is32 else 1e-9

    def bump(d, k, n=1):
        d[k] = d.get(k, 0) + n

    Xq = np.asarray(w.Xq, dtype=np.float64)
    if cfg['normalization'] == 'raw':
        Xn = gen.log2cpm(Xq)
    else:
        Xn = Xq
    qcol = {g: i for i, g in enumerate(w.query_genes)}
    means, ref_cols = read_leaf_means(w.stats_path)
    rcol = {g: i for i, g in enumerate(ref_cols)}
    row_of = {cid: i for i, cid in enumerate(w.cell_ids)}
    by_id = {r['cell_id']: r for r in results}

    factor_lookup = {}
    if cfg.get('bootstrap_factor_lookup'):
        for lv, f in cfg['bootstrap_factor_lookup']:
            factor_lookup[lv] = f
    else:
        for lv in red.hierarchy[:-1]:
            factor_lookup[lv] = cfg['bootstrap_factor']
        factor_lookup['None'] = cfg['bootstrap_factor']

    visited = set()      # (cell id, parent key)
    seen_rows = set()
    node_genes = {}      # parent key -> list of gene names used
    for pid, events in trace.items():
        try:
            chunks = parse_pid_events(events)
        except TraceError as exc:
            out.append(V('C02:trace-order', f'pid {pid}: {exc}'))
            continue
        for ch in chunks:
            bump(counters, 'chunks')
            ids = ch['cell_ids']
            want_ids = w.cell_ids[ch['r0']:ch['r1']]
            if ids != want_ids:
                out.append(V('C02:chunk-cell-ids',
                             f'chunk {ch["r0"]}:{ch["r1"]} carries ids '
                             f'{ids[:3]}.. but the query rows are '
                             f'{want_ids[:3]}..'))
                continue
            for r in range(ch['r0'], ch['r1']):
                seen_rows.add(r)
            for vis in ch['visits']:
                bump(counters, 'node_visits')
                v = _check_visit(w, red, vis, ch, Xn, qcol, rcol, means,
                                 by_id, factor_lookup, n_iter, n_ru, tol,
                                 tie, counters, dontcare, visited,
                                 node_genes, check_outputs, ambiguous_out)
                out += v
                if len(out) > 25:
                    return out, node_genes
    # coverage: every cell visited exactly where its path needed a choice
    if check_outputs:
        expected = set()
        for rec in results:
            prev_lv, prev_node = None, None
            for lv in red.hierarchy:
                kids = red.children(prev_lv, prev_node)
                if len(kids) > 1:
                    expected.add((rec['cell_id'],
                                  'None' if prev_lv is None
                                  else f'{prev_lv}/{prev_node}'))
                prev_lv, prev_node = lv, rec[lv]['assignment']
        if expected != visited:
            miss = sorted(expected - visited)[:3]
            extra = sorted(visited - expected)[:3]
            out.append(V('C02:visit-coverage',
                         f'votes expected but not traced: {miss}; traced '
                         f'but not on the reported path: {extra}'))
        if seen_rows != set(range(len(w.cell_ids))) and expected:
            out.append(V('C02:rows-not-covered',
                         f'chunks covered {len(seen_rows)} of '
                         f'{len(w.cell_ids)} rows'))
    return out, node_genes


def _check_visit(w, red, vis, ch, Xn, qcol, rcol, means, by_id,
                 factor_lookup, n_iter, n_ru, tol, tie, counters, dontcare,
                 visited, node_genes, check_outputs, ambiguous_out=None):
    out = []

    def bump(d, k, n=1):
        d[k] = d.get(k, 0) + n

    parent = vis['parent']
    if parent is None:
        plevel, pnode, pkey = None, None, 'None'
    else:
        plevel, pnode = parent
        pkey = f'{plevel}/{pnode}'
    node = vis['node']
    if node is None:
        return [V('C02:trace-order', f'visit of {pkey} has no node event')]
    kids = red.children(plevel, pnode)
    if len(kids) < 2:
        out.append(V('C02:vote-without-choice',
                     f'{pkey} has children {kids} but was voted on'))
        return out
    child_level = red.hierarchy[0] if plevel is None else \
        red.hierarchy[red.level_index(plevel) + 1]
    # factor and iteration count actually used
    want_factor = factor_lookup.get(str(plevel))
    if want_factor is None or abs(vis['factor'] - want_factor) > 1e-12:
        out.append(V('C02:wrong-factor',
                     f'{pkey}: factor {vis["factor"]} used, configured '
                     f'{want_factor}'))
    if vis['iterations'] != n_iter or len(vis['draws']) != n_iter:
        out.append(V('C02:iteration-count',
                     f'{pkey}: {len(vis["draws"])} draws for '
                     f'{n_iter} configured iterations'))
        return out
    qg = node['query_genes']
    rg = node['reference_genes']
    if qg != rg:
        out.append(V('C02:gene-pairing',
                     f'{pkey}: query genes {qg[:4]}.. vs reference genes '
                     f'{rg[:4]}..'))
        return out
    if len(set(qg)) != len(qg):
        out.append(V('C02:repeated-marker', f'{pkey}: {qg}'))
        return out
    unknown = [g for g in qg if g not in qcol or g not in rcol]
    if unknown:
        out.append(V('C02:unknown-gene', f'{pkey}: {unknown[:5]}'))
        return out
    node_genes[pkey] = list(qg)
    # leaves below the node, from the model
    leaves = red.leaves_under(plevel, pnode)
    leaf_child = {lf: red.ancestor(red.leaf_level, lf, child_level)
                  for lf in leaves}
    if sorted(node['reference_leaves']) != sorted(leaves):
        out.append(V('C02:leaf-restriction',
                     f'{pkey}: code compares against '
                     f'{sorted(node["reference_leaves"])[:6]}, leaves below '
                     f'the node are {sorted(leaves)[:6]}'))
        return out
    for lf, ty in zip(node['reference_leaves'], node['reference_types']):
        if leaf_child[lf] != ty:
            out.append(V('C02:leaf-to-child',
                         f'{pkey}: leaf {lf} credited to {ty}, belongs to '
                         f'{leaf_child[lf]}'))
            return out
    n = len(qg)
    sizes = expected_subset_sizes(vis['factor'], n)
    x = vis['factor'] * n
    if (x - np.floor(x)) == 0.5:
        bump(counters, 'round_half_cases_checked')
    elif abs((x - np.floor(x)) - 0.5) < 1e-9:
        bump(dontcare, 'round_near_half_cases')
    rows = vis['rows']
    cells = [ch['cell_ids'][r] for r in rows]
    grow = [ch['r0'] + r for r in rows]
    Q = Xn[np.array(grow)][:, [qcol[g] for g in qg]]
    leaf_list = sorted(leaves)
    R = np.array([means[lf][[rcol[g] for g in qg]] for lf in leaf_list])
    child_names = sorted(kids)
    cidx = {c: i for i, c in enumerate(child_names)}
    leaf_to_cidx = np.array([cidx[leaf_child[lf]] for lf in leaf_list])
    nq = len(cells)
    lo = np.zeros((nq, len(child_names)), dtype=int)
    amb_iter = np.zeros(nq, dtype=int)
    const_iter = np.zeros(nq, dtype=int)
    corr_sum = np.zeros((nq, len(child_names)))
    amb_any = np.zeros(nq, dtype=bool)
    cand_mask_total = np.zeros((nq, len(child_names)), dtype=int)
    for d in vis['draws']:
        bump(counters, 'draws_checked')
        sub = d['subset']
        if len(set(sub)) != len(sub):
            out.append(V('C02:subset-has-duplicates', f'{pkey}: {sub}'))
            return out
        if len(sub) not in sizes:
            out.append(V('C02:subset-size',
                         f'{pkey}: {len(sub)} of {n} markers drawn at '
                         f'factor {vis["factor"]}; expected {sorted(sizes)}'))
            return out
        if d['n_markers'] != n or min(sub) < 0 or max(sub) >= n:
            out.append(V('C02:subset-range',
                         f'{pkey}: subset {sub} for {n} markers '
                         f'(n_markers={d["n_markers"]})'))
            return out
        sub = np.array(sub)
        corr, q_const, r_const = pearson_matrix(Q[:, sub], R[:, sub])
        best = corr.max(axis=1)
        arg = corr.argmax(axis=1)
        near = corr >= (best[:, None] - tie)
        for i in range(nq):
            cand_children = set(leaf_to_cidx[near[i]].tolist())
            if q_const[i]:
                bump(dontcare, 'constant_query_vector_votes')
                cand_children = set(range(len(child_names)))
                const_iter[i] += 1
            if len(cand_children) > 1:
                amb_any[i] = True
                amb_iter[i] += 1
                for c in cand_children:
                    cand_mask_total[i, c] += 1
                bump(dontcare, 'near_tie_votes')
            else:
                c = leaf_to_cidx[arg[i]]
                lo[i, c] += 1
                corr_sum[i, c] += best[i]
            bump(counters, 'votes_recomputed')
    if ambiguous_out is not None:
        for i, cid in enumerate(cells):
            if amb_any[i]:
                ambiguous_out.add((cid, pkey))
    if not check_outputs:
        return out
    # compare with the output
    for i, cid in enumerate(cells):
        visited.add((cid, pkey))
        rec = by_id.get(cid)
        if rec is None:
            out.append(V('C02:cell-missing', f'{cid} not in results'))
            continue
        lr = rec[child_level]
        a = lr['assignment']
        if a not in cidx:
            out.append(V('C02:assignment-not-a-child',
                         f'cell {cid}: {a!r} is not a child of {pkey}'))
            continue
        votes_rep = lr['bootstrapping_probability'] * n_iter
        if amb_any[i] and const_iter[i] == len(vis['draws']) and \
                len(vis['draws']) > 0:
            # the cell was constant on every drawn subset: whichever child
            # collected the votes, every winning correlation was 0 (the
            # code's convention for a vector without variance), so the
            # reported means are exactly 0
            bump(counters, 'cell_nodes_constant_on_every_subset')
            bad = [c for c in [lr['avg_correlation']] +
                   list(lr.get('runner_up_correlation') or [])
                   if abs(c) > tol]
            if bad:
                out.append(V('C02:avg-correlation',
                             f'cell {cid} at {pkey}: constant on every '
                             f'drawn subset (every correlation is 0) but '
                             f'reported correlations {bad[:3]}'))
        if amb_any[i]:
            bump(counters, 'cell_nodes_with_ambiguity')
            hi = lo[i] + cand_mask_total[i]
            ia = cidx[a]
            if not (lo[i, ia] - 1e-6 <= votes_rep <= hi[ia] + 1e-6):
                out.append(V('C02:vote-count',
                             f'cell {cid} at {pkey}: {a} reported with '
                             f'{votes_rep} votes, recomputed between '
                             f'{lo[i, ia]} and {hi[ia]}'))
            # winner must be able to hold the most votes
            others_lo = [lo[i, j] for j in range(len(child_names))
                         if j != ia]
            if others_lo and max(others_lo) > hi[ia]:
                out.append(V('C02:not-plurality',
                             f'cell {cid} at {pkey}: {a} can have at most '
                             f'{hi[ia]} votes, another child has at least '
                             f'{max(others_lo)}'))
            continue
        bump(counters, 'cell_nodes_exact')
        ia = cidx[a]
        if lo[i].max() > 255:
            bump(counters, 'cell_nodes_with_more_than_255_votes_for_a_child')
        if lo[i, ia] != lo[i].max():
            out.append(V('C02:not-plurality',
                         f'cell {cid} at {pkey}: assigned {a} with '
                         f'{lo[i, ia]} recomputed votes; votes per child '
                         f'{dict(zip(child_names, lo[i].tolist()))}'))
            continue
        if abs(votes_rep - lo[i, ia]) > 1e-6:
            out.append(V('C02:vote-count',
                         f'cell {cid} at {pkey}: probability '
                         f'{lr["bootstrapping_probability"]} x {n_iter} != '
                         f'{lo[i, ia]} recomputed votes'))
            continue
        want_corr = corr_sum[i, ia] / lo[i, ia]
        if abs(lr['avg_correlation'] - want_corr) > tol:
            out.append(V('C02:avg-correlation',
                         f'cell {cid} at {pkey}: avg_correlation '
                         f'{lr["avg_correlation"]!r}, recomputed '
                         f'{want_corr!r}'))
        # runners-up: remaining vote getters by decreasing share
        others = [(lo[i, j], child_names[j]) for j in range(len(child_names))
                  if j != ia and lo[i, j] > 0]
        others.sort(key=lambda t: -t[0])
        want_n = min(n_ru, len(others))
        rua = lr['runner_up_assignment']
        rup = lr['runner_up_probability']
        ruc = lr['runner_up_correlation']
        if len(rua) != want_n:
            out.append(V('C02:runner-up-count',
                         f'cell {cid} at {pkey}: {len(rua)} runners-up, '
                         f'expected {want_n} (vote getters {others}, '
                         f'requested {n_ru})'))
            continue
        want_votes = [o[0] for o in others[:want_n]]
        got_votes = [int(round(p * n_iter)) for p in rup]
        if got_votes != want_votes:
            out.append(V('C02:runner-up-shares',
                         f'cell {cid} at {pkey}: shares {got_votes}, '
                         f'recomputed {want_votes}'))
            continue
        for name, p, c in zip(rua, rup, ruc):
            j = cidx.get(name)
            if j is None or lo[i, j] != int(round(p * n_iter)):
                out.append(V('C02:runner-up-identity',
                             f'cell {cid} at {pkey}: runner-up {name!r} '
                             f'with share {p}; recomputed votes '
                             f'{dict(zip(child_names, lo[i].tolist()))}'))
                break
            wc = corr_sum[i, j] / lo[i, j]
            if abs(c - wc) > tol:
                out.append(V('C02:runner-up-correlation',
                             f'cell {cid} at {pkey}: runner-up {name!r} '
                             f'correlation {c!r}, recomputed {wc!r}'))
                break
            bump(counters, 'runner_up_entries_recomputed')
        if len(out) > 25:
            break
    return out
