"""Regenerates /verif/MANIFEST.json from the table below (keeps it valid)."""
import json
import pathlib

VERIF = pathlib.Path(__file__).resolve().parent.parent

def _e(category, technique, text, ref, note):
    return {'category': category, 'technique': technique, 'text': text,
            'design_ref': ref, 'note': note}


_BASE_NOTE = ('Trusts: anndata/h5py/numpy as file and array layer, the '
              'harness generators (parent-pointer taxonomy model, in-memory '
              'matrices) as ground truth, statistics files written by the '
              'harness in the documented layout unless stated.  Verdict '
              'covers the executions produced (counts in the evidence), not '
              'all inputs.')

CHECKS = {
    'C01': _e('exploration',
              'runtime monitor over real run_mapping / '
              'run_type_assignment_on_h5ad executions: reference-model '
              '(parent-pointer taxonomy) oracle on every result record; '
              'worker completion order perturbed by a Process proxy; forced '
              'classes: slash labels, chunk-name orderings (100 cells / '
              'chunk 5), a root with 330 children mapped in one chunk, '
              'float32 / float16 / integer-typed queries',
              'Held on every generated execution: all 470 tree shapes (<=4 '
              'levels, <=6 leaves) x flatten / each droppable level in the '
              'thorough tier plus random larger inputs.',
              'DESIGN.md section 2 C01', _BASE_NOTE),
    'C02': _e('exploration',
              'offline trace checker: guarded hook records chunk / visit / '
              'node / draw events inside the real workers; every vote is '
              'recomputed from the input files and the recorded subsets by '
              'an independent oracle (own log2CPM, name-based column '
              'selection, longdouble Pearson) and compared with the output',
              'Every (cell, node, iteration) of the generated runs is '
              'recomputed; near-ties and constant vectors are counted '
              'don\'t-care.',
              'DESIGN.md section 2 C02',
              _BASE_NOTE + ' The add-only hook reports the subset actually '
              'applied to both matrices.'),
    'C03': _e('exploration',
              'invariant monitor on every level record of generated '
              'outputs (JSON and HDF5 read-back) + record-only icontract '
              'post-conditions on the real choose_node / tally_votes '
              'evaluated inside the forked workers',
              'Arithmetic contract asserted on every record produced; '
              'contract evaluations counted (zero = inconclusive).',
              'DESIGN.md section 2 C03', _BASE_NOTE),
    'C04': _e('exploration',
              'schedule-controlled differential monitor: every parallel '
              'stage re-run on identical files in fresh interpreters while a '
              'multiprocessing.Process proxy serialises its workers in '
              'chosen completion orders (turnstile; every permutation of up '
              'to 4 workers in the thorough tier), with random delays, '
              'varying PYTHONHASHSEED and equal-chunk worker counts; '
              'outputs compared bitwise; the proxy\'s finish log proves the '
              'order that actually happened',
              'All k! completion orders for k<=4 workers per stage in the '
              'thorough tier; sampled in the quick tier.',
              'DESIGN.md section 2 C04',
              _BASE_NOTE + ' Completion / write order of worker processes '
              'is the controllable schedule space; instruction-level '
              'interleavings inside a worker touch no shared state.'),
    'C05': _e('exploration',
              'reference-model monitor on the real AnnDataRowIterator '
              '(iteration, get_chunk, get_batch, __getitem__, and random '
              'access interleaved with an iteration): files written '
              'by anndata from in-memory matrices with unique ids as values, '
              're-chunked with h5py, sparse minor indices sorted or shuffled, '
              'values at the edges of every stored type; exhaustive 0/1 '
              'patterns up to 3x3 + random matrices; differential monitor: mapping results and '
              'statistics files bitwise equal across dense / CSR / CSC',
              'Every yielded chunk and requested row list compared exactly '
              'with the matrix held in memory.',
              'DESIGN.md section 2 C05', _BASE_NOTE),
    'C06': _e('exploration',
              'metamorphic differential monitor: base run vs runs on '
              'permuted / sub-sampled / embedded (among ordinary and among '
              '1e9-1e17 times brighter cells) / duplicated cells and other '
              'chunkings / encodings, and the query file rewritten in place and '
              'mapped again by the same process; joined on cell id',
              'Relation checked on every joined cell of every transformed '
              'run; near-tie cells (independent oracle) are don\'t-care.',
              'DESIGN.md section 2 C06', _BASE_NOTE),
    'C07': _e('exploration',
              'metamorphic differential monitor over paired real runs '
              '(raw vs normalised, per-cell scale, gene permutation, extra '
              'genes: bitwise where the statement says so; random, '
              'reference-order and marker-interior-shuffled gene orders) + '
              'negative-input rejection probe in three encodings and six '
              'HDF5 storage layouts of dense files',
              'Five relations per generated world, three gene orders, four '
              'negative-value files.',
              'DESIGN.md section 2 C07', _BASE_NOTE),
    'C08': _e('exploration',
              'reference-model monitor: a direct model of the statement '
              '(own markers, ancestors nearest first, root) compared with '
              'the marker cache the real code writes, the marker_genes it '
              'reports, the gene lists of the node trace events and the '
              'errors it raises',
              'Thousands of generated tables per run against the real '
              'reconciliation code plus end-to-end mappings whose votes are '
              'recomputed by gene name (value-level pairing).',
              'DESIGN.md section 2 C08', _BASE_NOTE),
    'C09': _e('exploration',
              'reference-model monitor: the real statistics writers, '
              'truncation and merge run on labelled matrices held in memory; '
              '(truncation also in two steps and from row-permuted files); '
              'every dataset of every written file compared with an '
              'independent computation (exact integer arithmetic for the '
              'CPM thresholds, CPM == 1 boundary entries generated on '
              'purpose); differential across partitions into files / chunks '
              '/ workers / encodings; forced class: few cells x more than '
              '65 536 genes stored as CSC / CSR / dense',
              'Every (cluster, gene) entry of every generated file.',
              'DESIGN.md section 2 C09', _BASE_NOTE),
    'C10': _e('exploration',
              'reference-model monitor: every public query, transformation '
              'and serialisation of the real TaxonomyTree compared with a '
              'parent-pointer model; bounded-exhaustive workload (all 470 '
              'shapes) + random trees; one-edit malformed variants must be '
              'rejected (or behave as the tree they denote) through the dict, '
              'string, JSON-file and statistics-file entry points, with and '
              'without reference cells; transformations also on trees that '
              'were never serialised; regrouped twin taxonomies (same level, '
              'node and leaf names, one level re-parented) alive in one '
              'process must each answer from their own structure',
              'Exhaustive over all shapes with <=4 levels and <=6 leaves in '
              'the thorough tier, sampled beyond.',
              'DESIGN.md section 2 C10', _BASE_NOTE),
    'C11': _e('exploration',
              'reference-model monitor: the real marker finders (direct and '
              'p-value-mask routes) judged per (pair, gene) by an oracle '
              'built from the raw cells (scipy Welch on per-cell log2CPM, '
              'own Holm step-down, penetrances as exact fractions): '
              'soundness of every recorded marker, completeness for every '
              'strictly qualifying gene, direction, pair-major / gene-major '
              'transpose structure; metamorphic renaming; differential over '
              'worker count (1-4) and memory budget (down to 1e-9); classes '
              'forced per case index: tuned Holm threshold, engineered '
              'zero-variance genes, unexpressed gene blocks, clusters over '
              '1290 cells, tables over 200 entries at a few bytes of budget',
              'Thousands of (pair, gene) decisions per run; don\'t-care '
              'bands counted.',
              'DESIGN.md section 2 C11', _BASE_NOTE),
    'C12': _e('exploration',
              'reference-model monitor: the real greedy selection run on '
              'pipeline-made and synthesised reference-marker tables; an '
              'independent census (scipy over the file\'s arrays + the '
              'model\'s leaf pairs) checks duplicates, query membership, '
              'usefulness and the per-pair coverage bound min(2 x target, '
              'available); differential over worker count and '
              'large-parent threshold; forced classes: a 256-pair parent, '
              'pairs with 256 / 258 / 512 markers in one direction',
              'Every (parent, leaf pair) of every generated table.',
              'DESIGN.md section 2 C12', _BASE_NOTE),
    'C13': _e('exploration',
              'reference-model monitor: real on-disk transposition '
              'routines (serial, sliced, value-less, parallel with 1-4 '
              'workers) and file-level operations run on matrices whose '
              'stored values are unique ids; outputs compared with scipy\'s '
              'canonical transpose / the same operation in memory; '
              'bounded-exhaustive 0/1 patterns up to 4x4; layer copies from '
              'dense layers in every HDF5 chunk layout',
              'Thorough tier enumerates all 65 536 4x4 patterns and all '
              'smaller shapes; every indices_slice sub-range of each.',
              'DESIGN.md section 2 C13', _BASE_NOTE),
    'C14': _e('fault_enumeration',
              'fault injection through a multiprocessing.Process proxy '
              'installed in each stage module (workers are forks and inherit '
              'it): every worker x {SIGKILL, SIGTERM, os._exit(3), '
              'sys.exit(7), raise} x {before, mid-way, after}; monitor on the parent call (must raise), on '
              'the victim exit code (fault really delivered) and on the '
              'files left behind (no results / CSV / success message; '
              'partial stage outputs fed to the next stage\'s reader); an '
              'injected exception swallowed inside the worker is a violation '
              'when the call returns a result different from the fault-free '
              'run; 12 stage entries incl. statistics over a file list and '
              'reference markers at a budget of a few bytes',
              'Thorough tier enumerates the full (stage, worker, mode, '
              'point) product on a small input; quick tier covers every '
              '(stage, mode, point) on a rotating worker, plus the first and '
              'last worker for SIGKILL and raise.',
              'DESIGN.md section 2 C14',
              _BASE_NOTE + ' Mid-way = first call of one inner function of '
              'the stage inside the victim; crash points inside C '
              'extensions (HDF5 writes) are not separately enumerated.'),
    'C15': _e('exploration',
              'cross-file consistency monitor over the JSON, CSV (csv '
              'module) and HDF5 (hdf5_to_blob) outputs of generated runs, '
              'embedded taxonomy and marker table compared with the model '
              'and the trace',
              'All three files of every generated run compared field by '
              'field.',
              'DESIGN.md section 2 C15', _BASE_NOTE),
    'C16': _e('exploration',
              'reference-model monitor around the real validate_h5ad: '
              'generated files (values straddling integer-type boundaries, '
              'three encodings, forced small HDF5 chunks, X or a layer, obs '
              'annotations, Ensembl / symbol / unknown gene names) with the '
              'input\'s sha256 taken before and after, output read back with '
              'anndata and compared entry by entry; the four rejection '
              'classes probed with and without a log object',
              'Every entry of every rewritten file; boundary values aimed '
              'at by the generator.',
              'DESIGN.md section 2 C16', _BASE_NOTE),
    'C17': _e('exploration',
              'differential monitor over paired real runs with a common '
              'seed: configuration-level drop / flatten vs a reference '
              'whose taxonomy is already reduced (also drop + flatten in one '
              'run, and dropping an absent level); bitwise comparison of '
              'level records',
              'Every droppable level of every generated taxonomy, alone and '
              'combined with flatten.',
              'DESIGN.md section 2 C17', _BASE_NOTE),
    'C18': _e('exploration',
              'end-to-end chain monitor: the pipeline\'s own stages run one '
              'after the other on generated references (each stage reading '
              'the previous stage\'s file), then the centroid query is '
              'mapped with the trace hook on in 4-6 gene orders, '
              'hierarchical and flattened; the statement\'s precondition '
              '(no rival leaf perfectly correlated on the drawn genes) is '
              'evaluated per (centroid, node, iteration) by the independent '
              'vote oracle',
              'Every (centroid, node) pair of every generated chain.',
              'DESIGN.md section 2 C18', _BASE_NOTE),
    'C19': _e('exploration',
              'file-system monitors around real stage executions: recursive '
              'sha256 snapshots of input / output / scratch / TMPDIR / cwd '
              'before and after every stage and after failing mapping runs '
              '(invalid inputs and injected worker faults); strace -f '
              'write-set monitor (every path opened for writing, created, '
              'renamed or removed must be a declared output or scratch); '
              'history monitor (stale files planted under every name '
              'pattern, success after success / failure, an earlier run\'s '
              'same-named statistics file next to the marker file) and '
              'concurrent '
              'pairs sharing directories, compared bitwise with solo / '
              'clean-directory results',
              'Every stage of the chain, 13 failure classes, every stale '
              'name pattern; syscall counts in the evidence.',
              'DESIGN.md section 2 C19', _BASE_NOTE),
    'C20': _e('exploration',
              'canary monitor: cloud-safe mapping runs (successful and '
              'failing on 12 invalid-input / worker-fault classes) executed '
              'inside directories whose names carry unique tokens and '
              'punctuation; every string of config / log in the JSON, the '
              'HDF5 metadata and the log file scanned for the tokens and for '
              'absolute path-like substrings that exist on the host; directory '
              'layouts incl. paths beyond 255 characters and un-normalised '
              'spellings (// and /./); a third of the runs without a '
              'separate log file',
              'All recorded strings of every generated run scanned; counts '
              'of strings and sanitised path lines in the evidence.',
              'DESIGN.md section 2 C20', _BASE_NOTE),
}

PENDING_REASON = ('check not built yet in this session; the property is in '
                  'reach of runtime monitoring (see DESIGN.md) and will be '
                  'claimed when its monitor exists')

NOT_APPLICABLE = {}

ALL = [f'C{i:02d}' for i in range(1, 21)]


def main():
    checks = []
    present = {pid for pid in ALL
               if (VERIF / 'vp' / 'checks' / f'{pid.lower()}.py').exists()
               and pid in CHECKS}
    for pid in ALL:
        if pid not in present:
            continue
        c = CHECKS[pid]
        checks.append({
            'property_id': pid,
            'quick_cmd': f'./check {pid} --tier quick',
            'thorough_cmd': f'./check {pid} --tier thorough',
            'evidence_file': f'evidence/{pid}.json',
            'replay_cmd_template': f'./check {pid} --replay {{path}}',
            'engine': 'vp-runtime-monitor',
            'level_claimed': {
                'category': c['category'],
                'text': c['text'],
                'design_ref': c['design_ref'],
            },
            'level_note': c['note'],
            'technique': c['technique'],
        })
    na = []
    for pid in ALL:
        if pid in present:
            continue
        na.append({'property_id': pid,
                   'reason': NOT_APPLICABLE.get(pid, PENDING_REASON)})
    man = {
        'version': 1,
        'setup_cmd': './setup.sh',
        'hooks': {
            'guard': 'CELL_TYPE_MAPPER_VERIF',
            'enable': 'CELL_TYPE_MAPPER_VERIF=1 and '
                      'CELL_TYPE_MAPPER_VERIF_TRACE=<dir> in the environment '
                      'of the worker interpreter (set per run by '
                      'vp.mapworld.run_world); editable install, no build '
                      'step',
            'baseline_off_cmd': './selftest/baseline_off.sh',
            'source_commits': ['594ed2c1098b17119f76f510d106b78763f61ef2'],
            'add_only': True,
        },
        'engines': [{
            'name': 'vp-runtime-monitor',
            'path': 'vp/',
            'serves_properties': sorted(present),
            'kind_free_text': 'case generator + isolated worker '
                              'interpreters running the real code + '
                              'trace / reference-model / differential / '
                              'file-system monitors + fault and '
                              'completion-order injection through a '
                              'multiprocessing.Process proxy',
        }],
        'checks': checks,
        'not_applicable': na,
        'notes': 'All checks: ./check <id> --tier quick|thorough; exit 0 '
                 'held, 1 violation (VIOLATION line), 2 inconclusive. '
                 'known_findings.json lists recorded / fixed defects.',
    }
    (VERIF / 'MANIFEST.json').write_text(json.dumps(man, indent=1) + '\n')


if __name__ == '__main__':
    main()
