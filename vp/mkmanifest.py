"""Regenerates /verif/MANIFEST.json from the table below (keeps it valid)."""
import json
import pathlib

VERIF = pathlib.Path(__file__).resolve().parent.parent

CHECKS = {
    'C01': {
        'category': 'exploration',
        'technique': 'runtime monitor over real run_mapping / '
                     'run_type_assignment_on_h5ad executions: reference-'
                     'model (parent-pointer taxonomy) oracle on every result '
                     'record, worker completion order perturbed by a '
                     'Process proxy',
        'text': 'Held on every generated execution: all 470 tree shapes '
                '(<=4 levels, <=6 leaves) x flatten / each droppable level '
                'in the thorough tier plus random larger inputs; not a '
                'proof over all inputs.',
        'design_ref': 'DESIGN.md section 2 C01',
        'note': 'Trusts the harness-written statistics file layout '
                '(documented schema), anndata as file writer, and the '
                'generator model as the definition of the taxonomy.',
    },
}

PENDING_REASON = ('check not built yet in this session; the property is in '
                  'reach of runtime monitoring (see DESIGN.md) and will be '
                  'claimed when its monitor exists')

NOT_APPLICABLE = {}

ALL = [f'C{i:02d}' for i in range(1, 21)]


def main():
    checks = []
    for pid in ALL:
        if pid not in CHECKS:
            continue
        c = CHECKS[pid]
        checks.append({
            'property_id': pid,
            'quick_cmd': f'./check {pid} --tier quick',
            'thorough_cmd': f'./check {pid} --tier thorough',
            'evidence_file': f'evidence/{pid}.json',
            'replay_cmd_template': f'./check {pid} --replay {{path}}',
            'engine': 'vp-runtime-monitor',
            'level_claimed': {
                'category': c['category'],
                'text': c['text'],
                'design_ref': c['design_ref'],
            },
            'level_note': c['note'],
            'technique': c['technique'],
        })
    na = []
    for pid in ALL:
        if pid in CHECKS:
            continue
        na.append({'property_id': pid,
                   'reason': NOT_APPLICABLE.get(pid, PENDING_REASON)})
    man = {
        'version': 1,
        'setup_cmd': './setup.sh',
        'hooks': {
            'guard': 'CELL_TYPE_MAPPER_VERIF',
            'enable': 'CELL_TYPE_MAPPER_VERIF=1 and '
                      'CELL_TYPE_MAPPER_VERIF_TRACE=<dir> in the environment '
                      'of the worker interpreter (set per run by '
                      'vp.mapworld.run_world); editable install, no build '
                      'step',
            'baseline_off_cmd': './selftest/baseline_off.sh',
            'source_commits': ['594ed2c'],
            'add_only': True,
        },
        'engines': [{
            'name': 'vp-runtime-monitor',
            'path': 'vp/',
            'serves_properties': sorted(CHECKS.keys()),
            'kind_free_text': 'case generator + isolated worker '
                              'interpreters running the real code + '
                              'trace / reference-model / differential / '
                              'file-system monitors + fault and '
                              'completion-order injection through a '
                              'multiprocessing.Process proxy',
        }],
        'checks': checks,
        'not_applicable': na,
        'notes': 'All checks: ./check <id> --tier quick|thorough; exit 0 '
                 'held, 1 violation (VIOLATION line), 2 inconclusive. '
                 'known_findings.json lists recorded / fixed defects.',
    }
    (VERIF / 'MANIFEST.json').write_text(json.dumps(man, indent=1) + '\n')


if __name__ == '__main__':
    main()
