"""
Small end-to-end pipeline worlds: a labelled reference h5ad with separable
clusters and thin drivers around the library functions each CLI's run()
calls (statistics, reference markers, p-value mask route, query-marker
selection).  Used by the schedule, fault, composition and file-system
monitors.
"""
import contextlib
import io
import json
import pathlib

import h5py
import numpy as np

from vp import gen, mapworld


class Ref(object):
    pass


def make_reference(rng, work, n_levels=None, n_leaves=None, n_genes=None,
                   cells_per_leaf=(4, 10), encoding='csr', name='ref',
                   rich=False, forest=None, nested_siblings=False,
                   numbered=False, pad_labels=False):
    """
    labelled raw-count reference with separable clusters; rich=True: the
    root and at least one node of every other non-leaf level have two or
    more children (so that every stage has a real choice at every level)
    """
    work = pathlib.Path(work)
    d = int(n_levels if n_levels is not None else rng.integers(2, 4))
    k = int(n_leaves if n_leaves is not None else rng.integers(5, 8))
    if forest is None:
        forest = gen.random_forest(rng, d, k)
    if rich and k >= d:
        def is_rich(f):
            level = [f]           # child lists of the nodes of one level
            for _ in range(d):
                if not any(len(kids) >= 2 for kids in level):
                    return False
                level = [t for kids in level for t in kids if t != ()]
                if not level:
                    break
            return True
        for _ in range(200):
            if is_rich(forest):
                break
            forest = gen.random_forest(rng, d, k)
    model = gen.build_from_shape(
        forest, d, rng, level_pool=['class', 'subclass', 'cluster', 'sub'],
        share_names=False)
    if numbered:
        # every level numbers its own nodes 0, 1, 2 ...: the same label
        # names unrelated nodes on different levels
        ren = {lv: {n: str(i) for i, n in enumerate(
            [model.nodes[lv][j] for j in rng.permutation(
                len(model.nodes[lv]))])} for lv in model.hierarchy}
        nodes = {lv: [ren[lv][n] for n in model.nodes[lv]]
                 for lv in model.hierarchy}
        parent = {}
        for li, lv in enumerate(model.hierarchy[1:], start=1):
            up = model.hierarchy[li - 1]
            parent[lv] = {ren[lv][n]: ren[up][p]
                          for n, p in model.parent[lv].items()}
        model = gen.TaxModel(model.hierarchy, nodes, parent)
    if pad_labels:
        # a few labels with a leading or a trailing blank (valid obs
        # values; the name of a cluster includes them)
        ren = {lv: {n: n for n in model.nodes[lv]} for lv in model.hierarchy}
        for lv in model.hierarchy:
            for k, n in enumerate(list(model.nodes[lv])[:2]):
                ren[lv][n] = (n + ' ') if k % 2 == 0 else (' ' + n)
        nodes = {lv: [ren[lv][n] for n in model.nodes[lv]]
                 for lv in model.hierarchy}
        parent = {}
        for li, lv in enumerate(model.hierarchy[1:], start=1):
            up = model.hierarchy[li - 1]
            parent[lv] = {ren[lv][n]: ren[up][p]
                          for n, p in model.parent[lv].items()}
        model = gen.TaxModel(model.hierarchy, nodes, parent)
    ng = int(n_genes if n_genes is not None else rng.integers(24, 40))
    genes = gen.gene_names(rng, ng, prefix='ens')
    # each leaf: its own "on" genes; siblings share some
    on = {}
    for lf in model.leaves:
        on[lf] = set(int(x) for x in rng.choice(
            ng, size=int(rng.integers(3, max(4, ng // 3))), replace=False))
    if nested_siblings and d >= 2:
        # one parent with exactly two leaves a, b where b expresses what a
        # expresses plus a few genes more: every marker of the pair points
        # the same way
        up = model.hierarchy[-2]
        for pn in model.nodes[up]:
            kids = model.children(up, pn)
            if len(kids) == 2:
                a, b = kids
                extra = [j for j in range(ng) if j not in on[a]][:4]
                on[b] = set(on[a]) | set(extra)
                break
    X = []
    labels = []
    cells = []
    ctr = 0
    for lf in model.leaves:
        n = int(rng.integers(cells_per_leaf[0], cells_per_leaf[1] + 1))
        for _ in range(n):
            row = rng.integers(0, 4, size=ng).astype(float)
            for j in on[lf]:
                row[j] = float(rng.integers(150, 900))
            X.append(row)
            labels.append(lf)
            cells.append(f'rc{ctr}')
            ctr += 1
    order = rng.permutation(len(cells))
    X = np.array(X)[order]
    labels = [labels[i] for i in order]
    cells = [cells[i] for i in order]
    r = Ref()
    r.model = model
    r.genes = genes
    r.X = X
    r.labels = labels
    r.cells = cells
    r.on = on
    r.path = work / f'{name}.h5ad'
    obs_extra = {lv: [model.ancestor(model.leaf_level, l, lv)
                      for l in labels] for lv in model.hierarchy}
    mapworld.write_h5ad(r.path, X, cells, genes, encoding=encoding,
                        obs_extra=obs_extra)
    return r


def quiet():
    return contextlib.redirect_stdout(io.StringIO())


def run_stats(ref, out, tmp_dir, n_processors=2, rows_at_a_time=7,
              normalization='raw'):
    from cell_type_mapper.diff_exp.precompute_from_anndata import (
        precompute_summary_stats_from_h5ad)
    with quiet():
        precompute_summary_stats_from_h5ad(
            data_path=ref.path,
            column_hierarchy=list(ref.model.hierarchy),
            taxonomy_tree=None, output_path=out,
            rows_at_a_time=rows_at_a_time, normalization=normalization,
            tmp_dir=str(tmp_dir), n_processors=n_processors)


def run_stats_with_tree(ref, out, tmp_dir, tree_dict, n_processors=2,
                        rows_at_a_time=7, normalization='raw',
                        copy_data_over=False):
    """the statistics stage entered with an explicit taxonomy tree"""
    from cell_type_mapper.diff_exp.precompute_from_anndata import (
        precompute_summary_stats_from_h5ad_and_tree)
    from cell_type_mapper.taxonomy.taxonomy_tree import TaxonomyTree
    with quiet():
        precompute_summary_stats_from_h5ad_and_tree(
            data_path=ref.path, taxonomy_tree=TaxonomyTree(data=tree_dict),
            output_path=out, rows_at_a_time=rows_at_a_time,
            normalization=normalization, tmp_dir=str(tmp_dir),
            n_processors=n_processors, copy_data_over=copy_data_over)


def run_ref_markers(stats_path, out, tmp_dir, n_processors=2, max_gb=1.0,
                    n_valid=5, exact_penetrance=False, add_metadata=True,
                    **thresholds):
    from cell_type_mapper.diff_exp.markers import (
        find_markers_for_all_taxonomy_pairs)
    from cell_type_mapper.taxonomy.taxonomy_tree import TaxonomyTree
    tree = TaxonomyTree.from_precomputed_stats(stats_path)
    with quiet():
        find_markers_for_all_taxonomy_pairs(
            precomputed_stats_path=stats_path, taxonomy_tree=tree,
            output_path=out, n_processors=n_processors,
            tmp_dir=str(tmp_dir), max_gb=max_gb, n_valid=n_valid,
            exact_penetrance=exact_penetrance, **thresholds)
    if add_metadata:
        with h5py.File(out, 'a') as dst:
            dst.create_dataset(
                'metadata',
                data=json.dumps(
                    {'precomputed_path': str(stats_path)}).encode('utf-8'))


def run_p_mask(stats_path, out, tmp_dir, n_processors=2, n_per=4,
               **thresholds):
    from cell_type_mapper.diff_exp.p_value_mask import (
        create_p_value_mask_file)
    with quiet():
        create_p_value_mask_file(
            precomputed_stats_path=stats_path, dst_path=out,
            n_processors=n_processors, tmp_dir=str(tmp_dir), n_per=n_per,
            **thresholds)


def run_markers_from_p_mask(stats_path, mask_path, out, tmp_dir,
                            n_processors=2, max_gb=1.0, n_valid=5,
                            add_metadata=True):
    from cell_type_mapper.diff_exp.p_value_markers import (
        find_markers_for_all_taxonomy_pairs_from_p_mask)
    with quiet():
        find_markers_for_all_taxonomy_pairs_from_p_mask(
            precomputed_stats_path=stats_path, p_value_mask_path=mask_path,
            output_path=out, n_processors=n_processors,
            tmp_dir=str(tmp_dir), max_gb=max_gb, n_valid=n_valid)
    if add_metadata:
        with h5py.File(out, 'a') as dst:
            if 'metadata' not in dst:
                dst.create_dataset(
                    'metadata',
                    data=json.dumps({'precomputed_path': str(
                        stats_path)}).encode('utf-8'))


def run_query_markers(ref_marker_path, query_genes, out_json, tmp_dir,
                      n_processors=2, n_per_utility=3, behemoth_cutoff=1000,
                      drop_level=None, override=None, search=None):
    from cell_type_mapper.type_assignment.marker_cache_v2 import (
        create_marker_gene_lookup_from_ref_list)
    kw = {}
    if search is not None:
        kw['search_for_stats_file'] = bool(search)
    with quiet():
        lookup = create_marker_gene_lookup_from_ref_list(
            reference_marker_path_list=[str(ref_marker_path)],
            query_gene_names=list(query_genes),
            n_per_utility=n_per_utility,
            n_per_utility_override=override,
            n_processors=n_processors,
            behemoth_cutoff=behemoth_cutoff,
            tmp_dir=str(tmp_dir),
            drop_level=drop_level, **kw)
    lookup = dict(lookup)
    log = lookup.pop('log', None)
    if out_json is not None:
        pathlib.Path(out_json).write_text(json.dumps(lookup))
    return lookup, log


def h5_digest(path, skip=('metadata',)):
    """dataset-by-dataset content of an HDF5 file (bitwise comparable)"""
    out = {}
    with h5py.File(path, 'r') as f:
        def visit(name, obj):
            if isinstance(obj, h5py.Dataset):
                if name.split('/')[-1] in skip:
                    return
                v = obj[()]
                if name.split('/')[-1] == 'taxonomy_tree' and \
                        isinstance(v, bytes):
                    # the tree's own 'metadata' holds a timestamp
                    t = json.loads(v.decode('utf-8'))
                    t.pop('metadata', None)
                    v = json.dumps(t, sort_keys=True).encode('utf-8')
                if isinstance(v, np.ndarray) and v.dtype == object:
                    # variable-length strings: tobytes() would be pointers
                    flat = [x.decode('utf-8') if isinstance(x, bytes)
                            else str(x) for x in v.ravel().tolist()]
                    out[name] = ('object', v.shape,
                                 json.dumps(flat).encode('utf-8'))
                elif isinstance(v, np.ndarray):
                    out[name] = (str(v.dtype), v.shape, v.tobytes())
                else:
                    out[name] = ('scalar', None,
                                 v if isinstance(v, bytes) else repr(v))
        f.visititems(visit)
    return out


def mapping_config(work, query_path, stats_path, marker_path, **ta):
    work = pathlib.Path(work)
    for d in ('out', 'scratch'):
        (work / d).mkdir(exist_ok=True, parents=True)
    cfg = {
        'query_path': str(query_path),
        'extended_result_path': str(work / 'out' / 'result.json'),
        'extended_result_dir': None,
        'csv_result_path': str(work / 'out' / 'result.csv'),
        'hdf5_result_path': str(work / 'out' / 'result.h5'),
        'summary_metadata_path': None,
        'obsm_key': None, 'obsm_clobber': False,
        'log_path': str(work / 'out' / 'log.txt'),
        'tmp_dir': str(work / 'scratch'),
        'drop_level': None, 'flatten': False, 'max_gb': 1.0,
        'cloud_safe': False, 'map_to_ensembl': False,
        'precomputed_stats': {'path': str(stats_path)},
        'query_markers': {'serialized_lookup': str(marker_path)},
        'type_assignment': {
            'bootstrap_iteration': 10, 'bootstrap_factor': 0.7,
            'bootstrap_factor_lookup': None, 'chunk_size': 5,
            'normalization': 'raw', 'rng_seed': 123, 'n_runners_up': 2,
            'min_markers': 2, 'n_processors': 2},
    }
    cfg['type_assignment'].update(ta)
    return cfg
