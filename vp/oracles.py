"""
Record-level oracles over the 'results' of a mapping output.  They use the
generator's parent-pointer model, never the repository's TaxonomyTree.
"""
import math
import re


EPS = 1e-9


def reduced_model(w):
    """the taxonomy the run actually votes on (model level)"""
    m = w.model
    cfg = w.config
    if cfg['drop_level'] is not None and cfg['drop_level'] in m.hierarchy \
            and len(m.hierarchy) > 1 and cfg['drop_level'] != m.leaf_level:
        m = m.drop_level(cfg['drop_level'])
    if cfg['flatten']:
        m = m.flatten()
    return m


def V(sig, msg):
    return {'sig': sig, 'msg': msg}


def check_structure(w, results, cell_ids=None):
    """C01: one complete, ordered, tree-consistent record per cell"""
    out = []
    full = w.model
    red = reduced_model(w)
    ids = list(cell_ids if cell_ids is not None else w.cell_ids)
    if not isinstance(results, list):
        return [V('C01:results-not-list', f'results is {type(results)}')]
    if len(results) != len(ids):
        out.append(V('C01:wrong-length',
                     f'{len(results)} records for {len(ids)} cells'))
        return out
    want_keys = set(full.hierarchy) | {'cell_id'}
    for i, (rec, cid) in enumerate(zip(results, ids)):
        if rec.get('cell_id') != cid:
            out.append(V('C01:order-or-id',
                         f'record {i} has cell_id {rec.get("cell_id")!r}, '
                         f'query row {i} is {cid!r}'))
            continue
        if set(rec.keys()) != want_keys:
            out.append(V('C01:level-keys',
                         f'cell {cid}: keys {sorted(rec.keys())} != '
                         f'{sorted(want_keys)}'))
            continue
        prev = None
        for li, lv in enumerate(full.hierarchy):
            lr = rec[lv]
            if not isinstance(lr, dict) or 'assignment' not in lr:
                out.append(V('C01:no-assignment',
                             f'cell {cid} level {lv}: {lr!r}'))
                break
            a = lr['assignment']
            if a not in full.nodes[lv]:
                out.append(V('C01:not-a-node',
                             f'cell {cid} level {lv}: {a!r} is not a node'))
                break
            if li > 0 and full.parent[lv][a] != prev:
                out.append(V('C01:broken-path',
                             f'cell {cid}: {lv}={a!r} has parent '
                             f'{full.parent[lv][a]!r} but '
                             f'{full.hierarchy[li-1]}={prev!r}'))
                break
            want_direct = lv in red.hierarchy
            if lr.get('directly_assigned') is not want_direct:
                out.append(V('C01:directly-assigned-flag',
                             f'cell {cid} level {lv}: directly_assigned='
                             f'{lr.get("directly_assigned")!r}, expected '
                             f'{want_direct}'))
                break
            prev = a
        if len(out) > 20:
            break
    return out


DIRECT_KEYS = {'assignment', 'bootstrapping_probability', 'avg_correlation',
               'runner_up_assignment', 'runner_up_correlation',
               'runner_up_probability', 'aggregate_probability',
               'directly_assigned'}


def _isnum(x):
    return isinstance(x, (int, float)) and not isinstance(x, bool) \
        and math.isfinite(x)


def check_confidence(w, results, counters=None):
    """C03: arithmetic contract of the confidence fields"""
    out = []
    full = w.model
    red = reduced_model(w)
    cfg = w.config['type_assignment']
    n_iter = cfg['bootstrap_iteration']
    n_ru = cfg['n_runners_up']
    counters = counters if counters is not None else {}

    def bump(k, n=1):
        counters[k] = counters.get(k, 0) + n

    for rec in results:
        cid = rec.get('cell_id')
        prod = 1.0
        last_voted_corr = None     # correlation of nearest real choice above
        prev_red_assign = None
        prev_red_level = None
        top_chain = []
        ok = True
        for lv in red.hierarchy:
            lr = rec.get(lv)
            if not isinstance(lr, dict):
                ok = False
                break
            bump('direct_level_records')
            missing = DIRECT_KEYS - set(lr.keys())
            if missing:
                out.append(V('C03:missing-field',
                             f'cell {cid} level {lv}: missing {missing}'))
                ok = False
                break
            p = lr['bootstrapping_probability']
            corr = lr['avg_correlation']
            rua = lr['runner_up_assignment']
            rup = lr['runner_up_probability']
            ruc = lr['runner_up_correlation']
            a = lr['assignment']
            siblings = red.children(prev_red_level, prev_red_assign)
            if not _isnum(p) or not (0.0 < p <= 1.0 + 1e-12):
                out.append(V('C03:probability-range',
                             f'cell {cid} level {lv}: probability {p!r}'))
                ok = False
                break
            votes = p * n_iter
            if abs(votes - round(votes)) > 1e-6:
                out.append(V('C03:probability-not-vote-share',
                             f'cell {cid} level {lv}: p={p!r} x '
                             f'{n_iter} iterations = {votes}'))
            if not (len(rua) == len(rup) == len(ruc)):
                out.append(V('C03:runner-up-length-mismatch',
                             f'cell {cid} level {lv}: lengths '
                             f'{len(rua)},{len(rup)},{len(ruc)}'))
                ok = False
                break
            if len(rua) > n_ru:
                out.append(V('C03:too-many-runners-up',
                             f'cell {cid} level {lv}: {len(rua)} > {n_ru}'))
            if len(set(rua)) != len(rua) or a in rua:
                out.append(V('C03:runner-up-not-distinct',
                             f'cell {cid} level {lv}: winner {a!r}, '
                             f'runners-up {rua!r}'))
            for r in rua:
                if r not in siblings:
                    out.append(V('C03:runner-up-not-sibling',
                                 f'cell {cid} level {lv}: {r!r} not a '
                                 f'child of {prev_red_assign!r}; '
                                 f'siblings {siblings!r}'))
            if a not in siblings:
                out.append(V('C03:winner-not-child-of-parent',
                             f'cell {cid} level {lv}: {a!r} not in '
                             f'{siblings!r}'))
            prevp = p
            for q in rup:
                bump('runner_up_entries')
                if not _isnum(q) or q <= 0:
                    out.append(V('C03:runner-up-probability-not-positive',
                                 f'cell {cid} level {lv}: {rup!r}'))
                    break
                if q > prevp + 1e-12:
                    out.append(V('C03:runner-up-order',
                                 f'cell {cid} level {lv}: winner {p!r}, '
                                 f'runners-up {rup!r}'))
                    break
                prevp = q
            tot = p + sum(q for q in rup if _isnum(q))
            if tot > 1.0 + 1e-9:
                out.append(V('C03:probabilities-exceed-one',
                             f'cell {cid} level {lv}: total {tot!r}'))
            if n_ru >= len(siblings) - 1 and abs(tot - 1.0) > 1e-9:
                out.append(V('C03:probabilities-do-not-sum-to-one',
                             f'cell {cid} level {lv}: all '
                             f'{len(siblings)} siblings listable but '
                             f'total {tot!r}'))
            for c in [corr] + list(ruc):
                if not _isnum(c) or c < -1.0 - EPS or c > 1.0 + EPS:
                    out.append(V('C03:correlation-range',
                                 f'cell {cid} level {lv}: correlation '
                                 f'{c!r}'))
                    break
            prod = prod * p
            agg = lr['aggregate_probability']
            if not _isnum(agg) or abs(agg - prod) > 1e-12 * max(1, prod):
                out.append(V('C03:aggregate-not-running-product',
                             f'cell {cid} level {lv}: aggregate {agg!r}, '
                             f'product {prod!r}'))
            if len(siblings) == 1:
                bump('single_child_records')
                if p != 1.0 or len(rua) != 0:
                    out.append(V('C03:single-child-not-certain',
                                 f'cell {cid} level {lv}: p={p!r} '
                                 f'runners-up {rua!r}'))
                if last_voted_corr is not None:
                    if corr != last_voted_corr:
                        out.append(V('C03:single-child-correlation',
                                     f'cell {cid} level {lv}: {corr!r} != '
                                     f'{last_voted_corr!r} of the nearest '
                                     f'level with a real choice'))
                else:
                    # chain of trivial assignments from the top: the only
                    # level with a real choice is below
                    top_chain.append((lv, corr))
            else:
                bump('voted_records')
                if len(top_chain) >= 2:
                    bump('top_chains_of_two_or_more_levels')
                for tlv, tcorr in top_chain:
                    bump('top_chain_records')
                    if tcorr != corr:
                        out.append(V('C03:single-child-correlation',
                                     f'cell {cid} level {tlv}: {tcorr!r} '
                                     f'!= {corr!r} of the nearest level '
                                     f'({lv}) with a real choice'))
                top_chain = []
                last_voted_corr = corr
            prev_red_assign = a
            prev_red_level = lv
        if not ok:
            continue
        # inferred levels
        for li, lv in enumerate(full.hierarchy):
            if lv in red.hierarchy:
                continue
            bump('inferred_level_records')
            lr = rec.get(lv)
            if not isinstance(lr, dict):
                continue
            # voted descendant = nearest finer level that was voted on
            desc = None
            for fl in full.hierarchy[li + 1:]:
                if fl in red.hierarchy:
                    desc = fl
                    break
            if desc is None:
                continue
            d = rec[desc]
            bad_keys = [k for k in lr if k.startswith('runner_up')]
            if bad_keys:
                out.append(V('C03:inferred-has-runner-up-fields',
                             f'cell {cid} level {lv}: {bad_keys}'))
            if lr.get('directly_assigned') is not False:
                out.append(V('C03:inferred-flag',
                             f'cell {cid} level {lv}: directly_assigned='
                             f'{lr.get("directly_assigned")!r}'))
            for k in ('bootstrapping_probability', 'avg_correlation',
                      'aggregate_probability'):
                if lr.get(k) != d.get(k):
                    out.append(V('C03:inferred-numbers-differ',
                                 f'cell {cid} level {lv}: {k}={lr.get(k)!r}'
                                 f' but voted descendant {desc} has '
                                 f'{d.get(k)!r}'))
            want = full.ancestor(desc, d['assignment'], lv) \
                if d.get('assignment') in full.nodes[desc] else None
            if lr.get('assignment') != want:
                out.append(V('C03:inferred-not-ancestor',
                             f'cell {cid} level {lv}: {lr.get("assignment")!r}'
                             f' is not the ancestor {want!r} of '
                             f'{desc}={d.get("assignment")!r}'))
        if len(out) > 30:
            break
    return out


_FRAME = re.compile(r'File "([^"]+)", line (\d+), in (\S+)')


def exception_signature(tb_text, stderr_text=''):
    """
    mechanism signature of a failure: exception type + innermost repository
    function, preferring the worker's own traceback when the parent only
    reports an exit code.
    """
    def innermost(text):
        # a traceback chunk: indented frame lines, then the exception line
        lines = (text or '').splitlines()
        if lines and lines[0].startswith('Traceback'):
            lines = lines[1:]
        body = []
        last_line = ''
        seen_frame = False
        for ln in lines:
            if ln.startswith(' ') or ln == '':
                body.append(ln)
                if ln.lstrip().startswith('File '):
                    seen_frame = True
                continue
            if seen_frame:
                last_line = ln
                break
        frames = _FRAME.findall('\n'.join(body))
        repo = [f for f in frames if 'cell_type_mapper' in f[0]]
        etype = last_line.split(':')[0].strip() if last_line else '?'
        if repo:
            f = repo[-1]
            fname = f[0].split('cell_type_mapper/')[-1]
            return f'{etype}@{fname}:{f[2]}', last_line
        return f'{etype}@?', last_line
    sig, last = innermost(tb_text)
    if 'One of the processes' in (last or '') and stderr_text:
        # use the worker traceback
        # the first worker traceback is the root cause; later ones are
        # usually orphans failing on files the parent already removed
        chunks = stderr_text.split('Traceback (most recent call last):')
        for ch in chunks[1:]:
            sig2, last2 = innermost(ch)
            if not sig2.startswith('?'):
                return f'worker:{sig2}', last2
    return sig, last
