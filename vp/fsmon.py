"""File-system monitors: snapshots, and a write-set monitor built on strace."""
import hashlib
import os
import pathlib
import re
import subprocess


def file_digest(path):
    h = hashlib.sha256()
    with open(path, 'rb') as f:
        while True:
            b = f.read(1 << 20)
            if not b:
                break
            h.update(b)
    return h.hexdigest()


def snapshot(dirs):
    """
    {dir: {relative path: ('d',) | ('f', size, sha256)}} for each directory
    (recursive; symlinks recorded, not followed)
    """
    out = {}
    for d in dirs:
        d = pathlib.Path(d)
        ent = {}
        if d.exists():
            for root, subdirs, files in os.walk(d):
                for s in subdirs:
                    p = pathlib.Path(root) / s
                    ent[str(p.relative_to(d))] = ('d',)
                for fn in files:
                    p = pathlib.Path(root) / fn
                    try:
                        if p.is_symlink():
                            ent[str(p.relative_to(d))] = ('l',
                                                          os.readlink(p))
                        else:
                            ent[str(p.relative_to(d))] = (
                                'f', p.stat().st_size, file_digest(p))
                    except FileNotFoundError:
                        pass
        out[str(d)] = ent
    return out


def diff_snapshots(before, after):
    """list of (dir, relpath, kind) with kind in created / removed / changed"""
    out = []
    for d in after:
        b = before.get(d, {})
        a = after[d]
        for k in a:
            if k not in b:
                out.append((d, k, 'created'))
            elif a[k] != b[k]:
                out.append((d, k, 'changed'))
        for k in b:
            if k not in a:
                out.append((d, k, 'removed'))
    return out


_SYSCALL = re.compile(r'^(?:\d+\s+)?(\w+)\((.*)\)\s*=\s*(-?\d+|\?)(.*)$')
_STR = re.compile(r'"((?:[^"\\]|\\.)*)"')


def parse_strace(log_path):
    """
    yields (syscall, [path args], flags text, return value) for successful
    file-system calls of interest
    """
    pending = {}
    for line in open(log_path, errors='replace'):
        line = line.rstrip('\n')
        # join "<unfinished ...>" / "<... resumed>" pairs
        m = re.match(r'^(\d+)\s+(.*)<unfinished \.\.\.>$', line)
        if m:
            pending[m.group(1)] = m.group(2)
            continue
        m = re.match(r'^(\d+)\s+<\.\.\. (\w+) resumed>(.*)$', line)
        if m and m.group(1) in pending:
            line = f'{m.group(1)} {pending.pop(m.group(1))}{m.group(3)}'
        m = _SYSCALL.match(line)
        if not m:
            continue
        name, args, ret, _ = m.groups()
        if ret == '?' or int(ret) < 0:
            continue
        paths = [bytes(s, 'utf-8').decode('unicode_escape', 'replace')
                 for s in _STR.findall(args)]
        yield name, paths, args, int(ret)


WRITE_CALLS = {'creat', 'mkdir', 'mkdirat', 'rename', 'renameat',
               'renameat2', 'unlink', 'unlinkat', 'rmdir', 'link', 'linkat',
               'symlink', 'symlinkat', 'truncate', 'chmod', 'fchmodat'}


def write_set(log_path, cwd):
    """set of absolute paths written / created / removed / renamed"""
    out = {}
    for name, paths, args, ret in parse_strace(log_path):
        touched = []
        if name in ('open', 'openat'):
            if re.search(r'O_WRONLY|O_RDWR|O_CREAT|O_TRUNC|O_APPEND', args):
                touched = paths[:1]
        elif name in WRITE_CALLS:
            touched = paths
        for p in touched:
            if not p.startswith('/'):
                p = os.path.normpath(os.path.join(cwd, p))
            out.setdefault(os.path.normpath(p), set()).add(name)
    return out


STRACE_EVENTS = ('openat,open,creat,mkdir,mkdirat,rename,renameat,renameat2,'
                 'unlink,unlinkat,rmdir,link,linkat,symlink,symlinkat,'
                 'truncate,chmod,fchmodat')


def run_under_strace(cmd, log_path, env, cwd, timeout=300):
    full = ['strace', '-f', '-qq', '-e', f'trace={STRACE_EVENTS}',
            '-o', str(log_path)] + list(cmd)
    return subprocess.run(full, env=env, cwd=str(cwd),
                          stdout=subprocess.PIPE, stderr=subprocess.STDOUT,
                          timeout=timeout)
