"""
C06 - a cell's mapping depends only on its own expression vector.
Metamorphic monitor at bootstrap factor 1: a base run versus runs on the same
cells permuted, sub-sampled, embedded among other cells, duplicated under new
ids and with other chunk sizes / worker counts / encodings, joined on cell id.
"""
import json

import numpy as np

from vp import mapcases, mapworld, oracles, vote_oracle

PROPERTY = 'C06'
LEVEL = 'exploration'
CASE_TIMEOUT = 150
BATCH_SIZE = {'quick': 3, 'thorough': 10}
REQUIRED_COUNTERS = ['transformed_runs', 'cell_records_joined',
                     'runs_on_a_file_rewritten_in_place',
                     'duplicate_rows_compared']
RULE = ('case = generated world (factor 1; two cells without a single zero; '
        'every other CSR / CSC file with unsorted minor indices) + 8 (quick) / 12 (thorough) '
        'transformed queries: row permutation, sub-sample, embedding among '
        'foreign cells (ordinary, and 1e17 / 1e9 times brighter than the '
        'cells under observation), duplication under new ids, chunk size / worker '
        'count / encoding change.  Cells with a near-tie (|delta corr| < '
        '1e-7) between candidate leaves at any node on their path are '
        'don\'t-care for assignment equality.  Non-trivial = at least one '
        'cell with a real choice was joined across runs')
ASSUMPTIONS = [
    'assignments, probabilities and runner-up lists compared exactly; '
    'correlations within 1e-9 (float64) / 2e-5 (float32)',
]


def gen_cases(tier, seed):
    rng = np.random.default_rng([seed, 106])
    if tier == 'quick':
        cases = mapcases.nasty_quick_cases(rng, 12) + \
            mapcases.random_large_cases(rng, 18, max_leaves=14,
                                        max_cells=40)
    else:
        cases = mapcases.nasty_quick_cases(rng, 300) + \
            mapcases.random_large_cases(rng, 600, max_leaves=20,
                                        max_cells=120)
    for i, c in enumerate(cases):
        c['bootstrap_factor'] = 1.0
        c['bootstrap_iteration'] = int(rng.choice([1, 3, 10]))
        c['n_cells'] = max(c['n_cells'], 4)
        c['separable'] = bool(rng.random() < 0.5)
        c['noise'] = float(rng.choice([1.0, 3.0]))
        c['dup_rows'] = True
        c['full_cells'] = 2
        if i % 2 == 0:
            c['encoding'] = ['csr', 'csc'][(i // 2) % 2]
            c['unsorted_indices'] = int(rng.integers(1, 2 ** 31))
        c['with_csv'] = False
        c['with_hdf5'] = False
        c['n_transforms'] = 8 if tier == 'quick' else 12
        if i % 6 == 0:
            c['x_dtype'] = 'float32'
        c['marker_kmin'] = 4
        c['marker_kmax'] = 16
        c['n_genes'] = max(c['n_genes'], 24)
    return cases


def _cmp_records(a, b, hierarchy, tol):
    """None if equal (corr within tol) else description"""
    for lv in hierarchy:
        ra, rb = a[lv], b[lv]
        for k in ('assignment', 'bootstrapping_probability',
                  'aggregate_probability', 'directly_assigned'):
            if ra.get(k) != rb.get(k):
                return f'{lv}.{k}: {ra.get(k)!r} vs {rb.get(k)!r}'
        if ra.get('runner_up_assignment') != rb.get('runner_up_assignment') \
                or ra.get('runner_up_probability') != \
                rb.get('runner_up_probability'):
            return (f'{lv}.runners-up: {ra.get("runner_up_assignment")} vs '
                    f'{rb.get("runner_up_assignment")}')
        if abs(ra['avg_correlation'] - rb['avg_correlation']) > tol:
            return (f'{lv}.avg_correlation: {ra["avg_correlation"]!r} vs '
                    f'{rb["avg_correlation"]!r}')
    return None


def run_case(spec, work):
    w = mapworld.build_world(spec, work)
    model = w.model
    counters, dontcare, viol = {}, {}, []
    rng = np.random.default_rng(spec['seed'] + 6)
    tol = 2e-5 if str(w.Xq.dtype) == 'float32' else 1e-9
    r = mapworld.run_world(w, trace=True)
    if r['exception'] is not None:
        sig, last = oracles.exception_signature(r['traceback'],
                                                r.get('stderr'))
        return {'violations': [{
                    'sig': f'C06:mapping-raised-on-valid-input:{sig}',
                    'msg': f'base run raised: {last}'}],
                'counters': {}, 'features': ['raised'], 'nontrivial': True}
    base = {rec['cell_id']: rec for rec in r['json']['results']}
    # near-tie cells from the independent oracle
    amb = set()
    c2, d2 = {}, {}
    vote_oracle.check_votes(w, r['json']['results'], r['trace'], c2, d2,
                            check_outputs=False, ambiguous_out=amb,
                            tie=(1e-4 if str(w.Xq.dtype) == 'float32'
                                 else 1e-7))
    amb_cells = {cid for cid, _ in amb}
    # within the base run: identical rows -> identical records
    n = len(w.cell_ids)
    rowkey = {}
    for i in range(n):
        rowkey.setdefault(w.Xq[i].tobytes(), []).append(w.cell_ids[i])
    for ids in rowkey.values():
        for other in ids[1:]:
            counters['duplicate_rows_compared'] = counters.get(
                'duplicate_rows_compared', 0) + 1
            if ids[0] in amb_cells:
                continue
            d = _cmp_records(base[ids[0]], base[other], model.hierarchy, tol)
            if d is not None:
                viol.append({'sig': 'C06:identical-rows-differ',
                             'msg': f'cells {ids[0]} and {other} have '
                                    f'identical vectors but {d}'})
    voted = any(rec[lv]['directly_assigned'] and
                len(model.nodes[lv]) > 1
                for rec in r['json']['results'][:1] for lv in model.hierarchy)

    transforms = ['permute', 'subsample', 'embed', 'duplicate', 'chunking',
                  'encoding', 'embed_bright', 'chunk1', 'permute', 'embed',
                  'subsample', 'chunking']
    for ti in range(spec['n_transforms']):
        kind = transforms[ti % len(transforms)]
        X = w.Xq
        ids = list(w.cell_ids)
        kw = {}
        if kind == 'permute':
            p = rng.permutation(n)
            X2, ids2 = X[p], [ids[i] for i in p]
        elif kind == 'subsample':
            k = int(rng.integers(1, n + 1))
            p = np.sort(rng.choice(n, size=k, replace=False))
            if rng.random() < 0.5:
                p = rng.permutation(p)
            X2, ids2 = X[p], [ids[i] for i in p]
        elif kind in ('embed', 'embed_bright'):
            m = int(rng.integers(1, 2 * n + 2))
            if w.spec['normalization'] == 'raw':
                F = np.floor(rng.uniform(0, 500, size=(m, X.shape[1])))
            else:
                F = rng.uniform(0, 12, size=(m, X.shape[1]))
            F[rng.random(F.shape) < 0.3] = 0
            if kind == 'embed_bright':
                # company that is many orders of magnitude brighter
                is32 = str(X.dtype) == 'float32'
                F = F * (1e9 if is32 else 1e17)
            F = F.astype(X.dtype)
            allX = np.vstack([X, F])
            allids = ids + [f'foreign_{j}' for j in range(m)]
            p = rng.permutation(len(allids))
            X2, ids2 = allX[p], [allids[i] for i in p]
        elif kind == 'duplicate':
            k = int(rng.integers(1, n + 1))
            src = rng.integers(0, n, size=k)
            X2 = np.vstack([X, X[src]])
            ids2 = ids + [f'{ids[s]}__dup{j}' for j, s in enumerate(src)]
            p = rng.permutation(len(ids2))
            X2, ids2 = X2[p], [ids2[i] for i in p]
        elif kind == 'chunk1':
            # every cell alone in its chunk
            X2, ids2 = None, None
            kw['ta_updates'] = {'chunk_size': 1, 'n_processors': 3}
        elif kind == 'chunking':
            X2, ids2 = None, None
            kw['ta_updates'] = {
                'chunk_size': int(rng.choice([1, 2, 3, 5, n, n + 7])),
                'n_processors': int(rng.integers(1, 6)),
                'rng_seed': int(rng.integers(0, 2 ** 31))}
        elif kind == 'encoding':
            X2, ids2 = None, None
            kw['encoding'] = str(rng.choice(
                [e for e in ('dense', 'csr', 'csc')
                 if e != w.spec['encoding']]))
        if X2 is not None:
            wd = mapworld.derive_world(w, f't{ti}', Xq=X2, cell_ids=ids2,
                                       **kw)
        else:
            wd = mapworld.derive_world(w, f't{ti}', **kw)
        rt = mapworld.run_world(wd, trace=False)
        if rt['exception'] is not None:
            sig, last = oracles.exception_signature(rt['traceback'],
                                                    rt.get('stderr'))
            viol.append({'sig': f'C06:transformed-run-raises[{kind}]',
                         'msg': f'{sig}: {last}'})
            continue
        counters['transformed_runs'] = counters.get(
            'transformed_runs', 0) + 1
        counters['transform_' + kind] = counters.get(
            'transform_' + kind, 0) + 1
        for rec in rt['json']['results']:
            cid = rec['cell_id']
            origin = cid.split('__dup')[0]
            if origin not in base:
                continue
            counters['cell_records_joined'] = counters.get(
                'cell_records_joined', 0) + 1
            if origin in amb_cells:
                dontcare['near_tie_cells_skipped'] = dontcare.get(
                    'near_tie_cells_skipped', 0) + 1
                continue
            d = _cmp_records(base[origin], rec, model.hierarchy, tol)
            if d is not None:
                viol.append({
                    'sig': f'C06:result-changed[{kind}]',
                    'msg': f'cell {cid}: {d} after transformation {kind}'})
                break
        if len(viol) > 6:
            break
    # the query file rewritten in place with its rows in another order and
    # mapped again by the same process, both times read where it lies (no
    # scratch directory): nothing remembered about the earlier content may
    # leak into the second run
    if len(viol) <= 6:
        for step in (0, 1):
            if step == 1:
                p = rng.permutation(n)
                mapworld.write_h5ad(
                    w.query_path, w.Xq[p], [w.cell_ids[i] for i in p],
                    w.query_genes, encoding=w.spec['encoding'])
            wd = mapworld.derive_world(w, f'inplace{step}',
                                       cfg_updates={'tmp_dir': None})
            rt = mapworld.run_world(wd, trace=False)
            if rt['exception'] is not None:
                sig, last = oracles.exception_signature(rt['traceback'],
                                                        rt.get('stderr'))
                viol.append({'sig': 'C06:transformed-run-raises[rewritten-'
                                    'in-place]', 'msg': f'{sig}: {last}'})
                break
            counters['runs_on_a_file_rewritten_in_place'] = step
            for rec in rt['json']['results']:
                cid = rec['cell_id']
                if cid not in base:
                    viol.append({'sig': 'C06:result-changed[rewritten-in-'
                                        'place]',
                                 'msg': f'unknown cell id {cid!r}'})
                    break
                counters['cell_records_joined'] = counters.get(
                    'cell_records_joined', 0) + 1
                if cid in amb_cells:
                    continue
                d = _cmp_records(base[cid], rec, model.hierarchy, tol)
                if d is not None:
                    viol.append({
                        'sig': 'C06:result-changed[rewritten-in-place]',
                        'msg': f'cell {cid}: {d} after the query file was '
                               f'rewritten in place with permuted rows '
                               f'(step {step})'})
                    break
    feats = mapcases.features_of(spec)
    return {'violations': viol, 'counters': counters, 'dontcare': dontcare,
            'features': feats,
            'nontrivial': counters.get('cell_records_joined', 0) > 0
            and len(model.leaves) > 1,
            'sample': {'n_cells': n, 'transforms': spec['n_transforms'],
                       'near_tie_cells': len(amb_cells)}}
