"""
C01 - every query cell gets one complete, ordered, tree-consistent
assignment.  Monitor over the 'results' of real run_mapping executions and
over the return value of run_type_assignment_on_h5ad (both collection
paths), with worker completion order perturbed in every case.
"""
import json
import pathlib

import numpy as np

from vp import mapcases, mapworld, oracles

PROPERTY = 'C01'
LEVEL = 'exploration'
CASE_TIMEOUT = 90
BATCH_SIZE = {'quick': 6, 'thorough': 24}
REQUIRED_COUNTERS = ['records_checked', 'runs_completed',
                     'runs_with_slash_label_on_a_multi_child_parent',
                     'runs_choosing_over_256_children_in_one_chunk']
RULE = ('case = (taxonomy shape, marker-table class, query encoding / '
        'normalisation / size, flatten / dropped level, chunk size, worker '
        'count, runners-up); generated from a seed, quick tier biased to '
        'single-top-node, chain, one-level and deep shapes, 1 cell, chunk '
        'size 1, more workers than cells; thorough tier = all 470 shapes '
        'with <=4 levels and <=6 leaves x {plain, flatten, every droppable '
        'level} + random larger trees.  A case is non-trivial when the '
        'mapper ran (or raised) and the oracle examined at least one '
        'record; distinct = distinct feature tuples.')
ASSUMPTIONS = [
    'reference statistics files are written by the harness in the '
    'documented layout (sum = mean x n_cells)',
    'marker tables are drawn from the class C08 does not reject: every '
    'listed gene is a reference gene, the root list has a gene in the query',
    'GPU code paths are unreachable (torch absent)',
]


def gen_cases(tier, seed):
    rng = np.random.default_rng([seed, 101])
    cases = []
    if tier == 'quick':
        cases += mapcases.nasty_quick_cases(rng, 64)
        for c in mapcases.random_large_cases(rng, 8, max_cells=60):
            cases.append(c)
        direct = mapcases.nasty_quick_cases(rng, 16)
    else:
        cases += mapcases.exhaustive_shape_cases(rng)
        cases += mapcases.random_large_cases(rng, 2400)
        cases += mapcases.nasty_quick_cases(rng, 1600)
        direct = mapcases.nasty_quick_cases(rng, 800)
    for i, c in enumerate(direct):
        c['mode'] = 'direct'
        c['collect'] = 'manager' if i % 2 == 0 else 'file'
        c.pop('flatten', None)
        cases.append(c)
    cases += mapcases.chunk_name_order_cases(
        rng, 2 if tier == 'quick' else 8)
    for _ in range(1 if tier == 'quick' else 3):
        cases.append(mapcases.very_wide_case(rng))
    # stale-table class (labelled, see DESIGN 4a): C01 expects a mapping
    n_stale = 6 if tier == 'quick' else 60
    for c in mapcases.nasty_quick_cases(rng, n_stale):
        c['marker_class'] = 'stale'
        cases.append(c)
    # validator-accepted oddity: a childless internal node
    n_odd = 4 if tier == 'quick' else 30
    for c in mapcases.random_large_cases(rng, n_odd, max_leaves=10,
                                         max_cells=12):
        c['n_levels'] = max(2, c['n_levels'])
        c['childless_node'] = True
        c.pop('flatten', None)
        cases.append(c)
    for i, c in enumerate(cases):
        c['order_seed'] = int(rng.integers(0, 2 ** 31))
        # stored numeric type of the query matrix
        m = i % 8
        if m in (1, 5):
            c['x_dtype'] = 'float32'
        elif m == 3 and c['normalization'] != 'raw' \
                and c['encoding'] == 'dense':
            c['x_dtype'] = 'float16'
        elif m in (2, 6) and c['normalization'] == 'raw':
            c['x_dtype'] = str(rng.choice(['int32', 'int64', 'uint32',
                                           'uint64']))
    return cases


def _plan(w, spec):
    rng = np.random.default_rng(spec.get('order_seed', 0))
    return {'log_dir': str(w.work / 'inject'),
            'delays': [float(x) for x in rng.uniform(0, 0.04, size=7)]}


def _classify(w, r):
    sig, last = oracles.exception_signature(r['traceback'], r.get('stderr'))
    m = oracles.reduced_model(w)
    cls = []
    if len(m.nodes[m.hierarchy[0]]) == 1:
        cls.append('single-top-node')
    if w.spec['marker_class'] == 'stale':
        cls.append('stale-marker-list')
    if any(len(m.children(lv, n)) == 0 for lv in m.hierarchy[:-1]
           for n in m.nodes[lv]):
        # this oddity is its own mechanism whatever else is true
        cls = ['childless-internal-node']
    return f"C01:exception[{','.join(cls)}]:{sig}", last


def run_direct(w, spec):
    """second observation point: run_type_assignment_on_h5ad itself"""
    from cell_type_mapper.taxonomy.taxonomy_tree import TaxonomyTree
    from cell_type_mapper.type_assignment.marker_cache_v2 import (
        create_marker_cache_from_specified_markers)
    from cell_type_mapper.type_assignment.election_runner import (
        run_type_assignment_on_h5ad)
    from vp import inject
    import traceback
    red = oracles.reduced_model(w)
    tree = TaxonomyTree(data=red.to_dict(with_cells=False))
    cache = w.work / 'scratch' / 'cache.h5'
    cfg = w.config['type_assignment']
    plan = _plan(w, spec)
    res = {'exception': None, 'traceback': None}
    try:
        create_marker_cache_from_specified_markers(
            marker_lookup=dict(w.marker_table),
            reference_gene_names=list(w.ref_genes),
            query_gene_names=list(w.query_genes),
            output_cache_path=cache,
            taxonomy_tree=tree,
            min_markers=cfg['min_markers'])
        factor_lookup = {lv: cfg['bootstrap_factor']
                         for lv in red.hierarchy[:-1]}
        factor_lookup['None'] = cfg['bootstrap_factor']
        outdir = None
        if spec.get('collect') == 'file':
            outdir = w.work / 'out' / 'buf'
            outdir.mkdir()
        inject.install(plan, ['cell_type_mapper.type_assignment.election'])
        try:
          with mapworld.capture_stderr(w.work / 'stderr_direct.txt'):
            result = run_type_assignment_on_h5ad(
                query_h5ad_path=w.query_path,
                precomputed_stats_path=w.stats_path,
                marker_gene_cache_path=cache,
                taxonomy_tree=tree,
                n_processors=cfg['n_processors'],
                chunk_size=cfg['chunk_size'],
                bootstrap_factor_lookup=factor_lookup,
                bootstrap_iteration=cfg['bootstrap_iteration'],
                rng=np.random.default_rng(cfg['rng_seed']),
                n_assignments=cfg['n_runners_up'] + 1,
                normalization=cfg['normalization'],
                tmp_dir=str(w.work / 'scratch'),
                log=None,
                max_gb=1.0,
                results_output_path=(str(outdir) if outdir else None))
        finally:
            codes, events = inject.collect()
            inject.uninstall()
            res['inject_events'] = events
        res['results'] = json.loads(json.dumps(
            result, default=lambda o: o.item() if hasattr(o, 'item')
            else str(o)))
    except Exception as e:
        res['exception'] = e
        res['traceback'] = traceback.format_exc()
    return res, red


def run_case(spec, work):
    from vp import inject
    w = mapworld.build_world(spec, work)
    counters = {}
    viol = []
    sample = None
    if spec.get('mode') == 'direct':
        r, red = run_direct(w, spec)
        if r['exception'] is not None:
            try:
                se = (w.work / 'stderr_direct.txt').read_text()
            except Exception:
                se = ''
            sig, last = _classify(w, {'traceback': r['traceback'],
                                      'stderr': se})
            viol.append({'sig': sig.replace('C01:', 'C01:direct-'),
                         'msg': f'run_type_assignment_on_h5ad raised: '
                                f'{last}'})
        else:
            # relative to the reduced tree every level is directly assigned
            class _W:
                pass
            w2 = _W()
            w2.model = red
            w2.config = dict(w.config)
            w2.config['flatten'] = False
            w2.config['drop_level'] = None
            w2.cell_ids = w.cell_ids
            viol += oracles.check_structure(w2, r['results'])
            counters['records_checked'] = len(r['results'])
            counters['runs_completed'] = 1
            counters['direct_runs_' + str(spec.get('collect'))] = 1
    else:
        r = mapworld.run_world(w, trace=False, plan=_plan(w, spec))
        if r['exception'] is not None:
            sig, last = _classify(w, r)
            viol.append({'sig': sig,
                         'msg': f'mapping raised on a valid input: {last}'})
            counters['runs_raised'] = 1
        else:
            js = r['json']
            if js is None or 'results' not in js:
                viol.append({'sig': 'C01:no-results',
                             'msg': 'run returned without results'})
            else:
                viol += oracles.check_structure(w, js['results'])
                counters['records_checked'] = len(js['results'])
                counters['runs_completed'] = 1
                sample = {
                    'hierarchy': w.model.hierarchy,
                    'n_nodes': {lv: len(w.model.nodes[lv])
                                for lv in w.model.hierarchy},
                    'flatten': w.config['flatten'],
                    'drop_level': w.config['drop_level'],
                    'n_cells': len(w.cell_ids),
                    'first_record': js['results'][0],
                }
    ev = r.get('inject_events') or []
    order = inject.finish_order(ev)
    if order and order != sorted(order):
        counters['runs_with_out_of_order_completion'] = 1
    counters['workers_observed'] = len(order)
    m = w.model
    if spec.get('wide_root') and r.get('json') and \
            len({x[m.hierarchy[0]]['assignment']
                 for x in r['json'].get('results', [])}) > 256:
        counters['runs_choosing_over_256_children_in_one_chunk'] = 1
    if any('/' in n and len(m.children(lv, n)) > 1
           for lv in m.hierarchy[:-1] for n in m.nodes[lv]) and \
            not spec.get('flatten'):
        counters['runs_with_slash_label_on_a_multi_child_parent'] = 1
    feats = mapcases.features_of(spec)
    feats['dtype'] = spec.get('x_dtype', 'float64')
    feats['mode'] = spec.get('mode', 'run_mapping')
    return {'violations': viol, 'counters': counters,
            'features': feats, 'nontrivial': True, 'sample': sample}
