"""
C10 - the taxonomy stays a strict tree under construction and transformation.
Reference-model monitor: every public query, transformation and
serialisation of the real TaxonomyTree is compared with the generator's
parent-pointer model, on all 470 small shapes and random larger trees; every
malformed variant reachable by one edit must be rejected.
"""
import copy
import itertools
import json

import numpy as np

from vp import gen, mapworld

PROPERTY = 'C10'
LEVEL = 'exploration'
CASE_TIMEOUT = 300
BATCH_SIZE = {'quick': 1, 'thorough': 1}
REQUIRED_COUNTERS = ['trees', 'constructions', 'drop_level_checks',
                     'drop_level_on_unserialised_trees',
                     'malformed_tried_through_file_or_string_routes',
                     'leaf_pair_sets_checked', 'malformed_rejected',
                     'malformed_label_tables_rejected',
                     'malformed_cellless_rejected',
                     'regrouped_twins_checked']
EXHAUSTIVE = {'quick': False, 'thorough': True}
RULE = ('case = a block of taxonomy shapes (thorough: all 470 unordered '
        'shapes with <=4 levels and <=6 leaves, exhaustive; quick: every '
        '4th shape + all shapes with <=3 leaves) and random larger trees '
        '(<=6 levels, <=40 leaves), each built four ways (dict, per-cell '
        'label columns / h5ad, from_str(to_str()), from_precomputed_stats), '
        'queried, flattened, every level dropped, compositions, and every '
        'one-edit malformed variant; each tree is followed in the same process '
        'by a regrouped twin (same names, one level re-parented) and both are '
        're-queried.  Non-trivial = tree with >=2 leaves; '
        'distinct = distinct (shape signature) values')
ASSUMPTIONS = [
    'the generator model defines the intended tree; node names are shuffled '
    'non-alphabetical strings, shared across levels',
]


def gen_cases(tier, seed):
    rng = np.random.default_rng([seed, 110])
    shapes = gen.enumerate_shapes(4, 6)
    if tier == 'thorough':
        idx = list(range(len(shapes)))
        n_random = 20000
    else:
        idx = [i for i, (d, k, f) in enumerate(shapes)
               if k <= 3 or i % 4 == seed % 4]
        n_random = 120
    cases = []
    blk = 30 if tier == 'thorough' else 25
    for i in range(0, len(idx), blk):
        cases.append({'mode': 'shapes', 'shape_indices': idx[i:i + blk],
                      'seed': int(rng.integers(2 ** 31))})
    per = 100 if tier == 'thorough' else 15
    for i in range(0, n_random, per):
        cases.append({'mode': 'random', 'n': per,
                      'seed': int(rng.integers(2 ** 31))})
    return cases


class Ctx(object):
    def __init__(self):
        self.viol = []
        self.counters = {}
        self.sigs = set()

    def bump(self, k, n=1):
        self.counters[k] = self.counters.get(k, 0) + n

    def V(self, sig, msg):
        if len(self.viol) < 12:
            self.viol.append({'sig': sig, 'msg': msg[:1200]})


def assign_cells(model, rng, allow_empty_leaf=False):
    ctr = 0
    cells = {}
    for lf in model.leaves:
        n = int(rng.integers(0 if allow_empty_leaf else 1, 4))
        cells[lf] = [f'c{ctr + i}' for i in range(n)]
        ctr += n
    model.cells = cells
    return model


def compare_tree_to_model(ctx, tree, model, tag, check_cells=True):
    """every public query of the real tree against the model"""
    V = ctx.V
    if tree.hierarchy != model.hierarchy:
        V(f'C10:{tag}:hierarchy', f'{tree.hierarchy} vs {model.hierarchy}')
        return
    if tree.leaf_level != model.leaf_level:
        V(f'C10:{tag}:leaf-level', f'{tree.leaf_level}')
    if sorted(tree.all_leaves) != sorted(model.leaves) or \
            tree.n_leaves != len(model.leaves):
        V(f'C10:{tag}:leaf-set',
          f'{sorted(tree.all_leaves)} vs {sorted(model.leaves)}')
        return
    want_parents = model.all_parents()
    got_parents = [None if p is None else tuple(p)
                   for p in tree.all_parents]
    if sorted(map(str, got_parents)) != sorted(map(str, want_parents)) or \
            got_parents[0] is not None:
        V(f'C10:{tag}:all-parents', f'{got_parents}')
    as_leaves = tree.as_leaves
    for li, lv in enumerate(model.hierarchy):
        if sorted(tree.nodes_at_level(lv)) != sorted(model.nodes[lv]):
            V(f'C10:{tag}:nodes-at-level',
              f'{lv}: {tree.nodes_at_level(lv)} vs {model.nodes[lv]}')
            return
        for node in model.nodes[lv]:
            kids = tree.children(lv, node)
            if lv != model.leaf_level:
                want = model.children(lv, node)
                if sorted(kids) != sorted(want):
                    V(f'C10:{tag}:children',
                      f'{lv}/{node}: {kids} vs {want}')
                # parent and child queries mutually inverse
                cl = model.hierarchy[li + 1]
                for c in kids:
                    par = tree.parents(cl, c)
                    if par.get(lv) != node:
                        V(f'C10:{tag}:parents-not-inverse-of-children',
                          f'{cl}/{c}: parents() = {par}, listed under '
                          f'{lv}/{node}')
            elif check_cells:
                if sorted(kids) != sorted(model.cells[node]):
                    V(f'C10:{tag}:leaf-cells',
                      f'{node}: {kids} vs {model.cells[node]}')
            anc = tree.parents(lv, node)
            if anc != model.ancestors(lv, node):
                V(f'C10:{tag}:ancestors',
                  f'{lv}/{node}: {anc} vs {model.ancestors(lv, node)}')
            lv_leaves = as_leaves[lv][node]
            want_leaves = model.leaves_under(lv, node)
            if len(lv_leaves) != len(set(lv_leaves)) or \
                    sorted(lv_leaves) != sorted(want_leaves):
                V(f'C10:{tag}:as-leaves',
                  f'{lv}/{node}: {lv_leaves} vs {sorted(want_leaves)}')
            # children's leaves partition the node's leaves
            if lv != model.leaf_level:
                cl = model.hierarchy[li + 1]
                acc = []
                for c in kids:
                    acc += as_leaves[cl][c]
                if sorted(acc) != sorted(lv_leaves):
                    V(f'C10:{tag}:children-do-not-partition',
                      f'{lv}/{node}: union of children leaves {acc} vs '
                      f'{lv_leaves}')
    # leaf pairs to discriminate under each parent
    for parent in want_parents:
        ctx.bump('leaf_pair_sets_checked')
        got = tree.leaves_to_compare(parent)
        plv, pn = (None, None) if parent is None else parent
        kids = model.children(plv, pn)
        if plv is not None and \
                model.level_index(plv) == len(model.hierarchy) - 1:
            kids = []
        cl = model.hierarchy[0] if plv is None else \
            model.hierarchy[model.level_index(plv) + 1]
        want = set()
        for a, b in itertools.combinations(kids, 2):
            for x in model.leaves_under(cl, a):
                for y in model.leaves_under(cl, b):
                    want.add((model.leaf_level,) + tuple(sorted((x, y))))
        got_t = [tuple(g) for g in got]
        if len(got_t) != len(set(got_t)):
            V(f'C10:{tag}:leaf-pair-repeated',
              f'parent {parent}: {got_t}')
        elif set(got_t) != want:
            V(f'C10:{tag}:leaf-pairs',
              f'parent {parent}: {sorted(got_t)[:8]} vs '
              f'{sorted(want)[:8]}')
        for g in got_t:
            if g[1] >= g[2]:
                V(f'C10:{tag}:leaf-pair-not-alphabetised', f'{g}')
                break
    # leaf parent also answers the pair query (nothing to compare)
    lf = model.leaves[0]
    if tree.leaves_to_compare((model.leaf_level, lf)) != []:
        V(f'C10:{tag}:leaf-parent-pairs', 'non-empty for a leaf')
    # siblings = all pairs on the same level
    want_sib = set()
    for lv in model.hierarchy:
        for a, b in itertools.combinations(sorted(model.nodes[lv]), 2):
            want_sib.add((lv, a, b))
    got_sib = [tuple(s) for s in tree.siblings]
    if set(got_sib) != want_sib or len(got_sib) != len(want_sib):
        V(f'C10:{tag}:siblings', f'{got_sib[:6]}')
    if check_cells:
        ltc = tree.leaf_to_cells
        for lf in model.leaves:
            if sorted(ltc[lf]) != sorted(model.cells[lf]) or \
                    sorted(tree.rows_for_leaf(lf)) != sorted(model.cells[lf]):
                V(f'C10:{tag}:leaf-to-cells', f'{lf}')
                break


def check_tree(ctx, model, rng, work):
    from cell_type_mapper.taxonomy.taxonomy_tree import TaxonomyTree
    from cell_type_mapper.taxonomy.utils import get_taxonomy_tree
    ctx.bump('trees')
    data = model.to_dict(with_cells=True)
    # -- construction 1: from the dict
    tree = TaxonomyTree(data=data)
    ctx.bump('constructions')
    compare_tree_to_model(ctx, tree, model, 'dict')
    # -- construction 2: serialise and re-read
    t2 = TaxonomyTree.from_str(tree.to_str())
    ctx.bump('constructions')
    compare_tree_to_model(ctx, t2, model, 'from_str')
    if not (t2 == tree) or (t2 != tree) or not tree.is_equal_to(t2):
        ctx.V('C10:round-trip-not-equal', 'from_str(to_str()) != original')
    t2b = TaxonomyTree.from_str(tree.to_str(indent=2, drop_cells=True))
    nocell = copy.deepcopy(model)
    nocell.cells = {lf: [] for lf in model.leaves}
    compare_tree_to_model(ctx, t2b, nocell, 'to_str-drop-cells')
    # -- construction 3: from a precomputed-stats style file
    sp = work / 'stats_tree.h5'
    import h5py
    with h5py.File(sp, 'w') as dst:
        dst.create_dataset('taxonomy_tree',
                           data=tree.to_str().encode('utf-8'))
    t3 = TaxonomyTree.from_precomputed_stats(sp)
    ctx.bump('constructions')
    compare_tree_to_model(ctx, t3, model, 'from_precomputed_stats')
    sp.unlink()
    # -- construction 4: from per-cell label columns
    records = []
    cell_leaf = []
    for lf in model.leaves:
        for c in model.cells[lf]:
            cell_leaf.append((c, lf))
    order = rng.permutation(len(cell_leaf))
    cell_leaf = [cell_leaf[i] for i in order]
    for c, lf in cell_leaf:
        records.append(dict(model.path_of_leaf(lf)))
    if records:
        built = get_taxonomy_tree(obs_records=copy.deepcopy(records),
                                  column_hierarchy=list(model.hierarchy))
        t4 = TaxonomyTree(data=built)
        ctx.bump('constructions')
        # expected: the model restricted to leaves that have cells, cells
        # named by row index
        present = [lf for lf in model.leaves if model.cells[lf]]
        rmodel = restrict_model(model, present)
        rows = {lf: [] for lf in present}
        for i, (c, lf) in enumerate(cell_leaf):
            rows[lf].append(i)
        rmodel.cells = rows
        compare_tree_to_model(ctx, t4, rmodel, 'from-label-columns')
        # the same transformations on this tree as it stands in memory
        # (never serialised: its child collections are what the builder
        # made them, not necessarily lists)
        compare_tree_to_model(ctx, t4.flatten(), rmodel.flatten(),
                              'from-label-columns:flatten')
        for lv in rmodel.hierarchy[:-1]:
            ctx.bump('drop_level_on_unserialised_trees')
            dm4 = rmodel.drop_level(lv)
            dm4.cells = rmodel.cells
            compare_tree_to_model(ctx, t4.drop_level(lv), dm4,
                                  'from-label-columns:drop_level')
        # malformed label table: one cell's coarser label changed so that
        # a node below the top level gets a second parent
        if len(model.hierarchy) >= 2 and len(records) >= 2:
            for attempt in range(4):
                li = int(rng.integers(0, len(model.hierarchy) - 1))
                lv = model.hierarchy[li]
                if len(model.nodes[lv]) < 2:
                    continue
                bad = copy.deepcopy(records)
                ci = int(rng.integers(len(bad)))
                # the edit must leave at least one other cell sharing the
                # child node, so that the child really has two parents
                child_lv = model.hierarchy[li + 1]
                mates = [k for k, r in enumerate(bad) if k != ci and
                         r[child_lv] == bad[ci][child_lv]]
                if not mates:
                    continue
                others = [n for n in model.nodes[lv] if n != bad[ci][lv]]
                bad[ci][lv] = others[int(rng.integers(len(others)))]
                # ancestors above follow the new node (consistent above)
                for lj in range(li):
                    uj = model.hierarchy[lj]
                    bad[ci][uj] = model.ancestor(lv, bad[ci][lv], uj)
                try:
                    get_taxonomy_tree(obs_records=bad,
                                      column_hierarchy=list(
                                          model.hierarchy))
                except Exception:
                    ctx.bump('malformed_rejected')
                    ctx.bump('malformed_label_tables_rejected')
                    break
                ctx.V('C10:malformed-label-table-accepted',
                      f'cell {ci} relabelled {lv}='
                      f'{bad[ci][lv]!r}: node {child_lv}='
                      f'{bad[ci][child_lv]!r} now has two parents, table '
                      f'accepted; records {json.dumps(bad)[:700]}')
                break
        if rng.random() < 0.15:
            import pandas as pd
            p = work / 'lab.h5ad'
            obs_extra = {lv: pd.Categorical([r[lv] for r in records])
                         if rng.random() < 0.5 else [r[lv] for r in records]
                         for lv in model.hierarchy}
            mapworld.write_h5ad(
                p, np.zeros((len(records), 2)),
                [c for c, _ in cell_leaf], ['g0', 'g1'],
                obs_extra=obs_extra)
            t5 = TaxonomyTree.from_h5ad(p, list(model.hierarchy))
            ctx.bump('constructions')
            ctx.bump('from_h5ad')
            compare_tree_to_model(ctx, t5, rmodel, 'from_h5ad')
            p.unlink()
    # -- transformations
    flat = tree.flatten()
    compare_tree_to_model(ctx, flat, model.flatten(), 'flatten')
    ctx.bump('flatten_checks')
    if len(model.hierarchy) > 1:
        for lv in model.hierarchy[:-1]:
            ctx.bump('drop_level_checks')
            dropped = tree.drop_level(lv)
            dm = model.drop_level(lv)
            compare_tree_to_model(ctx, dropped, dm, f'drop_level')
            # compositions: drop then drop, drop then flatten
            if len(dm.hierarchy) > 1:
                lv2 = dm.hierarchy[int(rng.integers(len(dm.hierarchy) - 1))]
                compare_tree_to_model(ctx, dropped.drop_level(lv2),
                                      dm.drop_level(lv2), 'drop-then-drop')
                ctx.bump('composition_checks')
            compare_tree_to_model(ctx, dropped.flatten(), dm.flatten(),
                                  'drop-then-flatten')
            rt = TaxonomyTree.from_str(dropped.to_str())
            compare_tree_to_model(ctx, rt, dm, 'drop-then-round-trip')
        # leaf level must not be dropped by drop_level
        try:
            tree.drop_level(model.leaf_level)
            ctx.V('C10:leaf-level-dropped', 'drop_level(leaf) accepted')
        except RuntimeError:
            pass
        dl = tree.drop_leaf_level()
        lm = leaf_dropped_model(model)
        compare_tree_to_model(ctx, dl, lm, 'drop_leaf_level',
                              check_cells=False)
    else:
        try:
            tree.drop_level(model.leaf_level)
            ctx.V('C10:flat-tree-dropped', 'drop_level on a flat tree')
        except RuntimeError:
            pass
    try:
        tree.drop_level('no_such_level')
        ctx.V('C10:absent-level-dropped', 'accepted')
    except RuntimeError:
        pass
    # -- malformed variants: one edit each, all must be rejected
    # ... of the tree with its cells and of the same tree without any
    # reference cell (the form the mapper embeds in its outputs)
    bare = model.to_dict(with_cells=False)
    variants = [(n, b, False) for n, b in
                malformed_variants(model, data, rng)]
    variants += [(n, b, True) for n, b in
                 malformed_variants(model, bare, rng)
                 if n != 'cell-in-two-leaves']
    def build(bad, route):
        if route == 'dict':
            return TaxonomyTree(data=bad)
        txt = json.dumps(bad)
        if route == 'from_str':
            return TaxonomyTree.from_str(txt)
        if route == 'from_json_file':
            jp = work / 'malformed.json'
            jp.write_text(txt)
            try:
                return TaxonomyTree.from_json_file(jp)
            finally:
                jp.unlink()
        hp = work / 'malformed_stats.h5'
        import h5py
        with h5py.File(hp, 'w') as dst:
            dst.create_dataset('taxonomy_tree', data=txt.encode('utf-8'))
        try:
            return TaxonomyTree.from_precomputed_stats(hp)
        finally:
            hp.unlink()
    routes = ['dict', 'from_str', 'from_json_file',
              'from_precomputed_stats']
    for vi, (name, bad, cellless) in enumerate(variants):
        # every variant through the dict constructor, and through one of
        # the file / string entry points in turn
        route = routes[vi % 4]
        try:
            json.dumps(bad)
        except TypeError:
            route = 'dict'           # (non-string keys cannot be serialised)
        if name == 'non-string-node':
            route = 'dict'
        if route != 'dict':
            ctx.bump('malformed_tried_through_file_or_string_routes')
        try:
            bt = build(bad, route)
        except Exception:
            ctx.bump('malformed_rejected')
            if cellless:
                ctx.bump('malformed_cellless_rejected')
            continue
        if name == 'child-listed-twice':
            # every node still has exactly one parent, so acceptance alone
            # does not contradict the statement; but then the tree must
            # behave as the strict tree it denotes
            ctx.bump('repeated_child_accepted')
            compare_tree_to_model(ctx, bt, model, 'child-listed-twice',
                                  check_cells=not cellless)
            continue
        ctx.V(f'C10:malformed-accepted[{name}'
              f'{",no-cells" if cellless else ""}'
              f'{"" if route == "dict" else "," + route}]',
              f'{json.dumps(bad, default=str)[:900]}')


def restrict_model(model, present_leaves):
    nodes = {lv: [] for lv in model.hierarchy}
    for lf in present_leaves:
        path = model.path_of_leaf(lf)
        for lv in model.hierarchy:
            if path[lv] not in nodes[lv]:
                nodes[lv].append(path[lv])
    parent = {lv: {n: model.parent[lv][n] for n in nodes[lv]}
              for lv in model.hierarchy[1:]}
    return gen.TaxModel(model.hierarchy, nodes, parent)


def leaf_dropped_model(model):
    h = model.hierarchy[:-1]
    nodes = {lv: model.nodes[lv] for lv in h}
    parent = {lv: model.parent[lv] for lv in h[1:]}
    return gen.TaxModel(h, nodes, parent)


def malformed_variants(model, data, rng):
    out = []
    h = model.hierarchy
    # second parent for a child
    for li in range(len(h) - 1):
        pl, cl = h[li], h[li + 1]
        if len(model.nodes[pl]) >= 2:
            c = model.nodes[cl][int(rng.integers(len(model.nodes[cl])))]
            others = [p for p in model.nodes[pl] if p != model.parent[cl][c]]
            bad = copy.deepcopy(data)
            bad[pl][others[0]] = list(bad[pl][others[0]]) + [c]
            out.append(('second-parent', bad))
        # dangling child
        bad = copy.deepcopy(data)
        p = model.nodes[pl][0]
        bad[pl][p] = list(bad[pl][p]) + ['__no_such_child__']
        out.append(('dangling-child', bad))
        # orphan node
        bad = copy.deepcopy(data)
        bad[cl]['__orphan__'] = [] if cl == model.leaf_level or True else []
        out.append(('orphan-node', bad))
        # child listed twice under its own parent
        bad = copy.deepcopy(data)
        c = model.nodes[cl][0]
        par = model.parent[cl][c]
        bad[pl][par] = list(bad[pl][par]) + [c]
        out.append(('child-listed-twice', bad))
    # a child struck from its parent's list (it still exists at its own
    # level, so it has no parent); for deeper levels also the variant in
    # which that orphan carries the label of a node properly listed as a
    # child higher up
    for li in range(len(h) - 1):
        pl, cl = h[li], h[li + 1]
        c = model.nodes[cl][int(rng.integers(len(model.nodes[cl])))]
        par = model.parent[cl][c]
        bad = copy.deepcopy(data)
        bad[pl][par] = [x for x in bad[pl][par] if x != c]
        out.append(('child-struck-from-parent', bad))
        if li >= 1:
            donors = [x for lv in h[1:li + 1] for x in model.nodes[lv]
                      if x not in model.nodes[cl]]
            if donors:
                new = donors[int(rng.integers(len(donors)))]
                bad = copy.deepcopy(data)
                bad[pl][par] = [x for x in bad[pl][par] if x != c]
                bad[cl][new] = bad[cl].pop(c)
                if li + 2 < len(h):
                    # (its own children keep pointing at it by position
                    # in the dict only; they are listed under the new name)
                    pass
                out.append(('orphan-sharing-a-label-with-a-listed-node',
                            bad))
    # a cell in two leaves
    leaves_with = [lf for lf in model.leaves if model.cells[lf]]
    if len(model.leaves) >= 2 and leaves_with:
        bad = copy.deepcopy(data)
        src = leaves_with[0]
        dst = [lf for lf in model.leaves if lf != src][0]
        bad[model.leaf_level][dst] = list(bad[model.leaf_level][dst]) + \
            [model.cells[src][0]]
        out.append(('cell-in-two-leaves', bad))
    # non-string node name
    lv = h[int(rng.integers(len(h)))]
    bad = copy.deepcopy(data)
    n0 = model.nodes[lv][0]
    bad[lv][7] = bad[lv].pop(n0)
    out.append(('non-string-node', bad))
    # missing / extra level key, no hierarchy
    bad = copy.deepcopy(data)
    bad.pop(h[int(rng.integers(len(h)))])
    out.append(('missing-level', bad))
    bad = copy.deepcopy(data)
    bad['bogus_level'] = {}
    out.append(('extra-level-key', bad))
    bad = copy.deepcopy(data)
    bad.pop('hierarchy')
    out.append(('no-hierarchy', bad))
    bad = copy.deepcopy(data)
    bad['hierarchy'] = list(h) + ['ghost_level']
    out.append(('hierarchy-names-unknown-level', bad))
    return out


def check_regrouped_twin(ctx, model, idx):
    """
    Two taxonomies alive in one process that share level names, node names
    and leaf names but group the nodes of one level differently (two
    versions of a taxonomy in which some nodes moved to another parent):
    each must answer every query from its own structure, in whichever
    order they are asked.
    """
    from cell_type_mapper.taxonomy.taxonomy_tree import TaxonomyTree
    d = len(model.hierarchy)
    if d < 2:
        return
    lv = model.hierarchy[1 + idx % (d - 1)]
    names = list(model.nodes[lv])
    par = [model.parent[lv][n] for n in names]
    rot = par[1:] + par[:1]
    if rot == par:
        return
    twin = copy.deepcopy(model)
    twin.parent[lv] = {n: p for n, p in zip(names, rot)}
    first = TaxonomyTree(data=model.to_dict(with_cells=True))
    for parent in model.all_parents():
        first.leaves_to_compare(parent)
    first.as_leaves
    second = TaxonomyTree(data=twin.to_dict(with_cells=True))
    compare_tree_to_model(ctx, second, twin, 'regrouped-twin')
    compare_tree_to_model(ctx, first, model, 'original-after-twin')
    third = TaxonomyTree(data=model.to_dict(with_cells=True))
    compare_tree_to_model(ctx, third, model, 'original-rebuilt-after-twin')
    ctx.bump('regrouped_twins_checked')


def run_case(spec, work):
    rng = np.random.default_rng(spec['seed'])
    ctx = Ctx()
    sigset = set()
    sample = None
    if spec['mode'] == 'shapes':
        shapes = gen.enumerate_shapes(4, 6)
        todo = [shapes[i] for i in spec['shape_indices']]
    else:
        todo = []
        for _ in range(spec['n']):
            d = int(rng.integers(1, 7))
            k = int(rng.integers(1, 41))
            todo.append((d, k, gen.random_forest(rng, d, k)))
    n_nontrivial = 0
    for d, k, forest in todo:
        model = gen.build_from_shape(forest, d, rng)
        assign_cells(model, rng,
                     allow_empty_leaf=bool(rng.random() < 0.3))
        try:
            check_tree(ctx, model, rng, work)
        except Exception:
            import traceback
            from vp import oracles
            tb = traceback.format_exc()
            sig, last = oracles.exception_signature(tb)
            ctx.V(f'C10:exception:{sig}',
                  f'{last} on {json.dumps(model.to_dict())[:600]}')
        try:
            check_regrouped_twin(ctx, model, len(sigset) + n_nontrivial)
        except Exception:
            import traceback
            from vp import oracles
            tb = traceback.format_exc()
            sig, last = oracles.exception_signature(tb)
            ctx.V(f'C10:exception[regrouped-twin]:{sig}',
                  f'{last} on {json.dumps(model.to_dict())[:600]}')
        if k >= 2:
            n_nontrivial += 1
            sigset.add(str(forest))
        if sample is None and k >= 3:
            sample = {'tree': model.to_dict(with_cells=False)}
    ctx.counters['nontrivial_trees'] = n_nontrivial
    return {'violations': ctx.viol, 'counters': ctx.counters,
            'features': sorted(sigset)[:50] if sigset else None,
            'distinct_list': sorted(sigset),
            'nontrivial': n_nontrivial > 0, 'sample': sample}


def distinct_count(results):
    allsig = set()
    for r in results:
        for s in r.get('distinct_list', []) or []:
            allsig.add(s)
    return len(allsig)
