"""
C17 - flattening or dropping a level equals mapping on the reduced taxonomy.
Differential monitor over pairs of real run_mapping executions sharing the
random seed.
"""
import json

import numpy as np

from vp import mapcases, mapworld, oracles

PROPERTY = 'C17'
LEVEL = 'exploration'
CASE_TIMEOUT = 120
BATCH_SIZE = {'quick': 4, 'thorough': 16}
REQUIRED_COUNTERS = ['drop_pairs', 'flatten_pairs', 'absent_level_pairs',
                     'runs_with_a_per_level_factor_table',
                     'level_records_compared_bitwise']
RULE = ('case = one generated world mapped four ways: (A) drop_level / '
        'flatten via the configuration, (B) no reduction on a reference '
        'whose embedded taxonomy never had the level / is the one-level '
        'taxonomy of the leaves with the union of all marker lists, (C) '
        'dropping a level that does not exist vs. no drop, (D) flatten and '
        'drop_level in one run vs. the one-level taxonomy; same seed, '
        'factors < 1 included.  Non-trivial = a voted level with more than '
        'one candidate was compared; distinct = distinct feature tuples')
ASSUMPTIONS = [
    'bitwise comparison of the JSON level records (assignment, '
    'probabilities, correlations, runner-up lists)',
    'the same marker table file is used on both sides of a drop pair '
    '(its entries for the removed level are never consulted)',
]


def gen_cases(tier, seed):
    rng = np.random.default_rng([seed, 117])
    cases = []
    if tier == 'quick':
        base = mapcases.nasty_quick_cases(rng, 20) + \
            mapcases.random_large_cases(rng, 16, max_leaves=14,
                                        max_cells=40)
        base = [c for c in base]
    else:
        base = mapcases.exhaustive_shape_cases(
            rng, per_shape_variants=False) + \
            mapcases.random_large_cases(rng, 450, max_leaves=20,
                                        max_cells=60)
    for i, c in enumerate(base):
        c.pop('flatten', None)
        c.pop('drop_level_index', None)
        c['marker_class'] = str(rng.choice(
            ['complete', 'sparse', 'absentq', 'stale']))
        c['bootstrap_factor'] = float(rng.choice([0.3, 0.5, 0.7, 0.9, 1.0]))
        c['separable'] = bool(rng.random() < 0.5)
        c['noise'] = float(rng.choice([1.0, 3.0]))
        c['with_csv'] = False
        c['with_hdf5'] = False
        # every third case: level names that are prefixes of each other
        # ('type', 'type_fine', ...)
        if i % 3 == 0:
            c['level_pool'] = 3
        if i % 3 == 1:
            c['factor_lookup_full'] = True
        cases.append(c)
    return cases


def _levels_equal(a_res, b_res, levels, viol, tag, counters):
    for ra, rb in zip(a_res, b_res):
        if ra['cell_id'] != rb['cell_id']:
            viol.append({'sig': f'C17:{tag}-cell-order',
                         'msg': f'{ra["cell_id"]} vs {rb["cell_id"]}'})
            return
        for lv in levels:
            a = dict(ra[lv])
            b = dict(rb[lv])
            counters['level_records_compared_bitwise'] = counters.get(
                'level_records_compared_bitwise', 0) + 1
            if a != b:
                viol.append({
                    'sig': f'C17:{tag}-level-differs',
                    'msg': f'cell {ra["cell_id"]} level {lv}: '
                           f'{json.dumps(a)[:300]} vs {json.dumps(b)[:300]}'})
                return


def run_case(spec, work):
    w = mapworld.build_world(spec, work)
    model = w.model
    counters, viol = {}, []
    if spec.get('factor_lookup_full'):
        # an explicit per-level bootstrap factor for every level of the
        # full taxonomy, all different: the level that is dropped has its
        # own entry, which must simply go unused
        fs = [0.8, 0.9, 0.25, 0.5, 0.7, 0.35, 0.6]
        pairs = [['None', fs[0]]] + [
            [lv, fs[1 + k % 6]] for k, lv in enumerate(model.hierarchy[:-1])]
        w.config['type_assignment']['bootstrap_factor_lookup'] = pairs
        w.config['type_assignment']['bootstrap_factor'] = None
        counters['runs_with_a_per_level_factor_table'] = 1
    rng = np.random.default_rng(spec['seed'] + 17)
    nontrivial = False

    def run(wd):
        r = mapworld.run_world(wd, trace=False)
        if r['exception'] is not None:
            sig, last = oracles.exception_signature(r['traceback'],
                                                    r.get('stderr'))
            return None, f'{sig}: {last}'
        return r['json'], None

    base, err = run(w)
    if base is None:
        return {'violations': [{
                    'sig': 'C17:mapping-raised-on-valid-input',
                    'msg': f'base run raised: {err}'}],
                'counters': {}, 'features': ['raised'], 'nontrivial': True}

    # (C) dropping a level the taxonomy does not contain changes nothing
    #     (a name unrelated to any level, and names that are a proper
    #     prefix / an extension of an existing level's name)
    absent = ['no_such_level', model.hierarchy[0][:-1] or 'q',
              model.hierarchy[-1] + '_x']
    absent = [a for a in absent if a not in model.hierarchy]
    for ai, aname in enumerate(absent):
        wc = mapworld.derive_world(w, f'absent{ai}',
                                   cfg_updates={'drop_level': aname})
        jc, err = run(wc)
        counters['absent_level_pairs'] = counters.get(
            'absent_level_pairs', 0) + 1
        if jc is None:
            viol.append({'sig': 'C17:absent-level-raises',
                         'msg': f'drop_level={aname!r}: {err}'})
        elif mapworld.strip_volatile(jc) != mapworld.strip_volatile(base):
            viol.append({'sig': 'C17:absent-level-changes-output',
                         'msg': f'outputs differ when dropping {aname!r}, '
                                f'which is not a level of '
                                f'{model.hierarchy}'})

    if len(model.hierarchy) > 1:
        # (A)/(B) every droppable level
        for li, lv in enumerate(model.hierarchy[:-1]):
            wa = mapworld.derive_world(w, f'dropA{li}',
                                       cfg_updates={'drop_level': lv})
            ja, err = run(wa)
            if ja is None:
                viol.append({'sig': 'C17:drop-run-raises', 'msg': err})
                continue
            red = model.drop_level(lv)
            red.cells = model.cells
            stats_b = w.work / f'stats_drop{li}.h5'
            mapworld.write_stats_file(
                stats_b, red, w.ref_genes, w.profiles, w.n_cells_ref, rng,
                with_cells=False)
            wb = mapworld.derive_world(w, f'dropB{li}', model=red,
                                       stats_path=stats_b,
                                       cfg_updates={'drop_level': None})
            jb, err = run(wb)
            if jb is None:
                viol.append({'sig': 'C17:reduced-reference-run-raises',
                             'msg': err})
                continue
            counters['drop_pairs'] = counters.get('drop_pairs', 0) + 1
            _levels_equal(ja['results'], jb['results'], red.hierarchy,
                          viol, 'drop', counters)
            # the dropped level is the ancestor of the finer assignment
            finer = model.hierarchy[li + 1]
            for rec in ja['results']:
                want = model.parent[finer][rec[finer]['assignment']]
                if rec[lv]['assignment'] != want or \
                        rec[lv].get('directly_assigned') is not False:
                    viol.append({'sig': 'C17:dropped-level-not-ancestor',
                                 'msg': f'cell {rec["cell_id"]}: {lv}='
                                        f'{rec[lv]["assignment"]!r}, '
                                        f'ancestor of {finer} is {want!r}'})
                    break
            if ja['marker_genes'] != jb['marker_genes']:
                viol.append({'sig': 'C17:drop-marker-table-differs',
                             'msg': 'marker_genes of the two runs differ'})
            for rec in jb['results']:
                for l2 in red.hierarchy:
                    if rec[l2].get('runner_up_assignment'):
                        nontrivial = True
        # (A')/(B') flatten
        wa = mapworld.derive_world(w, 'flatA', cfg_updates={'flatten': True})
        ja, err = run(wa)
        flat = model.flatten()
        flat.cells = model.cells
        stats_b = w.work / 'stats_flat.h5'
        mapworld.write_stats_file(
            stats_b, flat, w.ref_genes, w.profiles, w.n_cells_ref, rng,
            with_cells=False)
        allm = set()
        for k, v in w.marker_table.items():
            allm |= set(v)
        wb = mapworld.derive_world(
            w, 'flatB', model=flat, stats_path=stats_b,
            marker_table={'None': sorted(allm)},
            cfg_updates={'flatten': False})
        jb, err2 = run(wb)
        if ja is None or jb is None:
            viol.append({'sig': 'C17:flatten-run-raises',
                         'msg': f'{err} / {err2}'})
        else:
            counters['flatten_pairs'] = 1
            _levels_equal(ja['results'], jb['results'],
                          [model.leaf_level], viol, 'flatten', counters)
            for rec in ja['results']:
                leaf = rec[model.leaf_level]['assignment']
                for lv in model.hierarchy[:-1]:
                    want = model.ancestor(model.leaf_level, leaf, lv)
                    if rec[lv]['assignment'] != want:
                        viol.append({
                            'sig': 'C17:flatten-level-not-ancestor',
                            'msg': f'cell {rec["cell_id"]}: {lv}='
                                   f'{rec[lv]["assignment"]!r}, ancestor '
                                   f'of leaf {leaf!r} is {want!r}'})
                        break
            if len(model.leaves) > 1:
                nontrivial = True
            # (D) flatten and drop a level in one run: still the one-level
            #     taxonomy with the union of all lists
            for li, lv in enumerate(model.hierarchy[:-1]):
                wd = mapworld.derive_world(
                    w, f'flatdrop{li}',
                    cfg_updates={'flatten': True, 'drop_level': lv})
                jd, err = run(wd)
                if jd is None:
                    viol.append({'sig': 'C17:flatten-and-drop-run-raises',
                                 'msg': err})
                    continue
                counters['flatten_and_drop_pairs'] = counters.get(
                    'flatten_and_drop_pairs', 0) + 1
                _levels_equal(jd['results'], jb['results'],
                              [model.leaf_level], viol, 'flatten-and-drop',
                              counters)
                for rec in jd['results']:
                    leaf = rec[model.leaf_level]['assignment']
                    bad = [l2 for l2 in model.hierarchy[:-1]
                           if rec[l2]['assignment'] !=
                           model.ancestor(model.leaf_level, leaf, l2)]
                    if bad:
                        viol.append({
                            'sig': 'C17:flatten-and-drop-level-not-ancestor',
                            'msg': f'cell {rec["cell_id"]}: levels {bad} '
                                   f'are not the ancestors of leaf {leaf!r}'})
                        break
    feats = mapcases.features_of(spec)
    sample = {'hierarchy': model.hierarchy,
              'pairs': {k: counters.get(k) for k in
                        ('drop_pairs', 'flatten_pairs',
                         'absent_level_pairs')}}
    return {'violations': viol[:10], 'counters': counters, 'features': feats,
            'nontrivial': nontrivial or len(model.leaves) > 1,
            'sample': sample}
