"""
C07 - mapping is invariant to count scale, declared normalisation and gene
order; raw input with a negative value is rejected.  Paired real runs.
"""
import json

import numpy as np

from vp import gen, mapcases, mapworld, oracles, vote_oracle

PROPERTY = 'C07'
LEVEL = 'exploration'
CASE_TIMEOUT = 150
BATCH_SIZE = {'quick': 3, 'thorough': 10}
REQUIRED_COUNTERS = ['pairs_raw_vs_normalised', 'pairs_scaled',
                     'pairs_gene_permutation', 'pairs_extra_genes',
                     'negative_inputs_rejected', 'cell_records_joined']
RULE = ('case = generated raw-count world and five relations: (a) raw vs '
        'oracle log2(CPM+1) declared normalised [factor 1], (b) per-cell '
        'positive scale [factor 1], (c) gene column permutation [bitwise, '
        'any factor], (d) adding/removing non-marker / non-reference genes '
        'of a normalised query [bitwise, any factor], (e) one negative raw '
        'value in dense / CSR / CSC, float or signed int -> must raise and '
        'write no results.  Near-tie cells are don\'t-care for (a),(b).')
ASSUMPTIONS = [
    'raw inputs are integer-valued (float64 or int storage) so CPM row sums '
    'are exact in any column order',
    '(a),(b): correlations within 1e-9; assignments / probabilities equal '
    'outside near-ties (|delta corr| < 1e-7)',
]


def gen_cases(tier, seed):
    rng = np.random.default_rng([seed, 107])
    n = 25 if tier == 'quick' else 1200
    cases = mapcases.nasty_quick_cases(rng, n // 3) + \
        mapcases.random_large_cases(rng, n - n // 3, max_leaves=14,
                                    max_cells=40)
    for i, c in enumerate(cases):
        c['normalization'] = 'raw'
        c['x_dtype'] = str(rng.choice(['float64', 'int32', 'int64',
                                       'uint16']))
        c['bootstrap_iteration'] = int(rng.choice([1, 4, 10]))
        c['bootstrap_factor'] = float(rng.choice([0.4, 0.7, 1.0]))
        c['n_cells'] = max(c['n_cells'], 3)
        c['with_csv'] = False
        c['with_hdf5'] = False
        c['marker_kmin'] = 4
        c['marker_kmax'] = 14
        c['n_genes'] = max(c['n_genes'], 24)
    return cases


def _run(wd, trace=False):
    r = mapworld.run_world(wd, trace=trace)
    if r['exception'] is not None:
        sig, last = oracles.exception_signature(r['traceback'],
                                                r.get('stderr'))
        return None, r, f'{sig}: {last}'
    return r['json'], r, None


def _cmp_tol(a, b, hierarchy, tol):
    for lv in hierarchy:
        ra, rb = a[lv], b[lv]
        for k in ('assignment', 'bootstrapping_probability',
                  'runner_up_assignment', 'runner_up_probability'):
            if ra.get(k) != rb.get(k):
                return f'{lv}.{k}: {ra.get(k)!r} vs {rb.get(k)!r}'
        if abs(ra['avg_correlation'] - rb['avg_correlation']) > tol:
            return (f'{lv}.avg_correlation {ra["avg_correlation"]!r} vs '
                    f'{rb["avg_correlation"]!r}')
    return None


def run_case(spec, work):
    w = mapworld.build_world(spec, work)
    model = w.model
    counters, dontcare, viol = {}, {}, []
    rng = np.random.default_rng(spec['seed'] + 7)
    n = len(w.cell_ids)
    ta1 = {'bootstrap_factor': 1.0}

    # base at factor 1 for the floating-point relations
    w1 = mapworld.derive_world(w, 'f1', ta_updates=ta1)
    j1, r1, err = _run(w1, trace=True)
    if j1 is None:
        return {'violations': [{
                    'sig': 'C07:mapping-raised-on-valid-input',
                    'msg': f'base run (factor 1) raised: {err}'}],
                'counters': {}, 'features': ['raised'], 'nontrivial': True}
    amb = set()
    vote_oracle.check_votes(w1, j1['results'], r1['trace'], {}, {},
                            check_outputs=False, ambiguous_out=amb,
                            tie=1e-7)
    amb_cells = {c for c, _ in amb}
    base1 = {rec['cell_id']: rec for rec in j1['results']}

    def join(jb, tag):
        for rec in jb['results']:
            counters['cell_records_joined'] = counters.get(
                'cell_records_joined', 0) + 1
            if rec['cell_id'] in amb_cells:
                dontcare['near_tie_cells_skipped'] = dontcare.get(
                    'near_tie_cells_skipped', 0) + 1
                continue
            d = _cmp_tol(base1[rec['cell_id']], rec, model.hierarchy, 1e-9)
            if d is not None:
                viol.append({'sig': f'C07:{tag}',
                             'msg': f'cell {rec["cell_id"]}: {d}'})
                return

    # (a) raw vs oracle-normalised
    Xn = gen.log2cpm(w.Xq)
    wa = mapworld.derive_world(w, 'norm', Xq=Xn, normalization='log2CPM',
                               ta_updates=ta1)
    ja, _, err = _run(wa)
    if ja is None:
        viol.append({'sig': 'C07:normalised-run-raises', 'msg': err})
    else:
        counters['pairs_raw_vs_normalised'] = 1
        join(ja, 'raw-vs-normalised')

    # (b) per-cell positive scale
    if np.issubdtype(w.Xq.dtype, np.integer):
        scale = rng.integers(1, 9, size=(n, 1))
        Xs = (w.Xq.astype(np.int64) * scale).astype(np.int64)
    else:
        scale = rng.choice([0.5, 2.0, 3.0, 10.0, 0.37, 123.456, 1e-3,
                            1e-6, 1e-9, 1e6],
                           size=(n, 1))
        Xs = w.Xq * scale
    ws = mapworld.derive_world(w, 'scaled', Xq=Xs, ta_updates=ta1)
    js, _, err = _run(ws)
    if js is None:
        viol.append({'sig': 'C07:scaled-run-raises', 'msg': err})
    else:
        counters['pairs_scaled'] = 1
        join(js, 'scale-changes-result')

    # (c) gene column permutation, bitwise at the configured factor
    jb, _, err = _run(w)
    if jb is None:
        viol.append({'sig': 'C07:mapping-raised-on-valid-input',
                     'msg': f'base run raised: {err}'})
        return {'violations': viol, 'counters': counters,
                'features': ['raised'], 'nontrivial': True}
    perms = [('random', rng.permutation(len(w.query_genes)))]
    # the reference's own gene order, and that order with the first and the
    # last marker kept in place while everything between them is shuffled
    qpos = {g: i for i, g in enumerate(w.query_genes)}
    in_ref = [qpos[g] for g in w.ref_genes if g in qpos]
    rest = [i for i in range(len(w.query_genes)) if i not in set(in_ref)]
    ref_order = np.array(in_ref + rest, dtype=int)
    perms.append(('reference-order', ref_order))
    allm = set()
    for v in w.marker_table.values():
        allm |= set(v)
    mk = [k for k, i in enumerate(ref_order) if w.query_genes[i] in allm]
    if len(mk) >= 4:
        p2 = ref_order.copy()
        inner = np.arange(mk[0] + 1, mk[-1])
        p2[inner] = p2[rng.permutation(inner)]
        perms.append(('markers-interior-shuffled', p2))
    for pname, p in perms:
        wp = mapworld.derive_world(
            w, 'perm_' + pname, Xq=w.Xq[:, p],
            query_genes=[w.query_genes[i] for i in p],
            encoding=str(rng.choice(['dense', 'csr', 'csc'])))
        jp, _, err = _run(wp)
        if jp is None:
            viol.append({'sig': 'C07:permuted-run-raises', 'msg': err})
        else:
            counters['pairs_gene_permutation'] = counters.get(
                'pairs_gene_permutation', 0) + 1
            if jp['results'] != jb['results'] or \
                    {k: sorted(v) for k, v in jp['marker_genes'].items()} != \
                    {k: sorted(v) for k, v in jb['marker_genes'].items()}:
                viol.append({'sig': f'C07:gene-order-changes-result[{pname}]',
                             'msg': 'results differ bitwise after permuting '
                                    'the query gene columns with their names '
                                    f'({pname})'})

    # (c') a query without a single zero, stored as CSR with the column
    #      indices of every row in shuffled order (what csr[:, order]
    #      leaves behind) against the same file with sorted indices
    Xp = w.Xq.astype(np.float64) + 1.0
    outs = []
    for tag, uns in (('sorted', None), ('unsorted', 12345 + spec['seed'])):
        wu = mapworld.derive_world(w, 'full_' + tag, Xq=Xp, encoding='csr',
                                   spec_updates={'unsorted_indices': uns})
        ju, _, err = _run(wu)
        if ju is None:
            viol.append({'sig': 'C07:permuted-run-raises', 'msg': err})
            break
        outs.append(ju['results'])
    if len(outs) == 2:
        counters['pairs_fully_stored_csr_unsorted_indices'] = 1
        if outs[0] != outs[1]:
            viol.append({'sig': 'C07:gene-order-changes-result[unsorted-'
                                'csr-indices]',
                         'msg': 'results differ between a fully stored CSR '
                                'query with sorted and with shuffled column '
                                'indices'})

    # (d) normalised query with non-marker / non-reference genes added or
    #     removed: bitwise
    wn = mapworld.derive_world(w, 'normf', Xq=Xn, normalization='log2CPM')
    jn, _, err = _run(wn)
    if jn is not None:
        markers = set()
        for v in w.marker_table.values():
            markers |= set(v)
        removable = [i for i, g in enumerate(w.query_genes)
                     if g not in markers]
        keep = [i for i, g in enumerate(w.query_genes)
                if g in markers or rng.random() < 0.5]
        extra_ref = []   # reference genes that are not markers stay optional
        n_new = int(rng.integers(1, 6))
        many = bool(rng.random() < 0.4)
        if many:
            # more query genes than any index type sized for the
            # reference gene list can hold
            n_new = int(rng.integers(260, 420))
        newX = rng.uniform(0, 12, size=(n, n_new))
        X2 = np.hstack([newX, Xn[:, keep]])
        g2 = [f'brand_new_{j}' for j in range(n_new)] + \
            [w.query_genes[i] for i in keep]
        p2 = rng.permutation(len(g2))
        if many and rng.random() < 0.5:
            p2 = np.arange(len(g2))       # foreign genes first
            counters['many_foreign_genes_first'] = 1
        wd = mapworld.derive_world(w, 'extra', Xq=X2[:, p2],
                                   query_genes=[g2[i] for i in p2],
                                   normalization='log2CPM')
        jd, _, err = _run(wd)
        if jd is None:
            viol.append({'sig': 'C07:extra-genes-run-raises', 'msg': err})
        else:
            counters['pairs_extra_genes'] = 1
            counters['genes_removed'] = counters.get(
                'genes_removed', 0) + len(w.query_genes) - len(keep)
            if jd['results'] != jn['results']:
                viol.append({
                    'sig': 'C07:non-marker-genes-change-result',
                    'msg': 'results differ bitwise after adding / removing '
                           'genes that are not markers'})
    else:
        viol.append({'sig': 'C07:normalised-run-raises', 'msg': err})

    # (e) a negative raw value is rejected
    Xneg = w.Xq.astype(np.float64 if rng.random() < 0.5 else np.int64)
    i, j = int(rng.integers(n)), int(rng.integers(Xneg.shape[1]))
    Xneg[i, j] = -1 if np.issubdtype(Xneg.dtype, np.integer) \
        else float(rng.choice([-1.0, -0.5, -1e-3]))
    enc = ['dense', 'csr', 'csc'][spec['seed'] % 3]
    we = mapworld.derive_world(w, 'neg', Xq=Xneg, encoding=enc)
    je, re_, err = _run(we)
    if je is not None:
        viol.append({'sig': f'C07:negative-raw-mapped[{enc}]',
                     'msg': f'raw input with X[{i},{j}]={Xneg[i, j]} '
                            f'({Xneg.dtype}, {enc}) was mapped'})
    else:
        counters['negative_inputs_rejected'] = 1
        if re_['json'] is not None and 'results' in re_['json']:
            viol.append({'sig': 'C07:negative-raw-results-written',
                         'msg': 'failed run wrote results'})
    # (e') the same for dense matrices stored in column-oriented / tall /
    #      small / compressed HDF5 chunks, a negative in every third column
    #      in turn (several files, one negative each)
    cols = sorted({int(x) for x in rng.choice(
        Xneg.shape[1], size=min(3, Xneg.shape[1]), replace=False)}
        | {Xneg.shape[1] - 1})
    for k, j2 in enumerate(cols):
        lay = ['cols', 'tall', 'small', 'gzip', 'rows', 'wide'][
            (spec['seed'] + k) % 6]
        X3 = w.Xq.astype(np.float64)
        i2 = int(rng.integers(n))
        X3[i2, j2] = -3.0
        wl = mapworld.derive_world(w, f'negl{k}', Xq=X3, encoding='dense',
                                   h5_layout=lay)
        jl, rl, err = _run(wl)
        if jl is not None:
            viol.append({'sig': f'C07:negative-raw-mapped[dense,{lay}]',
                         'msg': f'raw input with X[{i2},{j2}]=-3.0 (dense, '
                                f'HDF5 layout {lay}, shape {X3.shape}) was '
                                f'mapped'})
        else:
            counters['negative_inputs_rejected_chunked_layouts'] = \
                counters.get('negative_inputs_rejected_chunked_layouts',
                             0) + 1
    feats = mapcases.features_of(spec)
    feats['dtype'] = spec['x_dtype']
    return {'violations': viol[:8], 'counters': counters,
            'dontcare': dontcare, 'features': feats,
            'nontrivial': counters.get('cell_records_joined', 0) > 0
            and len(model.leaves) > 1,
            'sample': {'scale_first_cells': np.asarray(scale).ravel()[:4],
                       'negative_at': [i, j], 'encoding_neg': enc}}
