"""
C15 - JSON, CSV and HDF5 outputs tell the same story and round-trip.
Monitor over the three files written by real run_mapping executions.
"""
import csv
import io
import json

import numpy as np

import cell_type_mapper
from vp import mapcases, mapworld, oracles, vote_oracle

PROPERTY = 'C15'
LEVEL = 'exploration'
CASE_TIMEOUT = 90
BATCH_SIZE = {'quick': 6, 'thorough': 24}
REQUIRED_COUNTERS = ['csv_rows_checked', 'hdf5_records_checked',
                     'csv_cells_translated_through_name_tables',
                     'runs_with_runners_up']
RULE = ('case = generated mapping world run end to end with CSV and HDF5 '
        'outputs on; name tables full / partial / absent, node names needing '
        'CSV quoting, 0..k runners-up, flattened and level-dropped, single '
        'iteration; non-trivial = all three files were compared for at '
        'least one cell; distinct = distinct feature tuples')
ASSUMPTIONS = [
    'CSV parsed with the csv module after skipping leading # lines',
    'confidence text compared with "%.4f" % json_value',
    'HDF5 floats compared exactly with the JSON floats',
]


def gen_cases(tier, seed):
    rng = np.random.default_rng([seed, 115])
    if tier == 'quick':
        cases = mapcases.nasty_quick_cases(rng, 40)
        cases += mapcases.random_large_cases(rng, 20, max_leaves=14,
                                             max_cells=40)
    else:
        cases = mapcases.exhaustive_shape_cases(
            rng, per_shape_variants=False)
        cases += mapcases.nasty_quick_cases(rng, 1600)
        cases += mapcases.random_large_cases(rng, 1600, max_leaves=20,
                                             max_cells=80)
    cases += mapcases.chunk_name_order_cases(
        rng, 2 if tier == 'quick' else 8)
    for i, c in enumerate(cases):
        c['with_csv'] = True
        c['with_hdf5'] = True
        c['name_mapper'] = [None, 'full', 'partial'][i % 3]
        c['nasty_names'] = bool(i % 2)
        if i % 5 == 0:
            c['bootstrap_iteration'] = 1
        if i % 4 == 0:
            c['separable'] = False
            c['noise'] = 4.0
            c['n_runners_up'] = int(rng.integers(1, 6))
        if i % 7 == 0:
            c['n_runners_up'] = 0
    return cases


def parse_csv(text):
    lines = text.split('\n')
    comments = []
    k = 0
    while k < len(lines) and lines[k].startswith('#'):
        comments.append(lines[k])
        k += 1
    body = '\n'.join(lines[k:])
    rows = list(csv.reader(io.StringIO(body)))
    rows = [r for r in rows if r != []]
    return comments, rows[0], rows[1:]


def _plain(o):
    if isinstance(o, dict):
        return {k: _plain(v) for k, v in o.items()}
    if isinstance(o, (list, tuple)):
        return [_plain(v) for v in o]
    if hasattr(o, 'item'):
        return o.item()
    return o


def run_case(spec, work):
    w = mapworld.build_world(spec, work)
    counters, viol = {}, []
    r = mapworld.run_world(w, trace=True)
    if r['exception'] is not None:
        sig, last = oracles.exception_signature(r['traceback'],
                                                r.get('stderr'))
        return {'violations': [{
                    'sig': f'C15:mapping-raised-on-valid-input:{sig}',
                    'msg': f'mapping raised: {last}'}],
                'counters': {'runs_raised': 1},
                'features': ['raised'], 'nontrivial': True}
    js = r['json']
    results = js['results']
    model = w.model
    extras = w.tree_extras or {}
    nm = extras.get('name_mapper', {})
    hm = extras.get('hierarchy_mapper', {})
    cfg = w.config
    n_iter = cfg['type_assignment']['bootstrap_iteration']

    def V(sig, msg):
        viol.append({'sig': sig, 'msg': msg})

    # ------------------------------------------------------------ CSV
    text = open(cfg['csv_result_path'], newline='').read()
    comments, header, rows = parse_csv(text)
    want_comments = ['# metadata = result.json',
                     '# taxonomy hierarchy = '
                     + json.dumps(model.hierarchy)]
    readable = [hm.get(lv, lv) for lv in model.hierarchy]
    if readable != model.hierarchy:
        want_comments.append('# readable taxonomy hierarchy = '
                             + json.dumps(readable))
    if comments[:len(want_comments)] != want_comments:
        V('C15:csv-comment-lines',
          f'comment lines {comments} do not start with {want_comments}')
    last = comments[-1] if comments else ''
    if f'version: {cell_type_mapper.__version__}' not in last or \
            'codebase:' not in last or len(comments) != len(want_comments) + 1:
        V('C15:csv-version-line', f'comment lines {comments}')
    if len(rows) != len(results):
        V('C15:csv-row-count', f'{len(rows)} rows for {len(results)} cells')
    conf_label = ('correlation_coefficient' if n_iter == 1
                  else 'bootstrapping_probability')
    conf_key = 'avg_correlation' if n_iter == 1 \
        else 'bootstrapping_probability'
    col = {h: i for i, h in enumerate(header)}
    if len(col) != len(header):
        V('C15:csv-duplicate-columns', f'header {header}')
    if header[0] != 'cell_id':
        V('C15:csv-first-column', f'header {header}')
    for i, (row, rec) in enumerate(zip(rows, results)):
        if len(viol) > 8:
            break
        if len(row) != len(header):
            V('C15:csv-ragged-row', f'row {i}: {row}')
            continue
        if row[0] != w.cell_ids[i] or rec['cell_id'] != w.cell_ids[i]:
            V('C15:csv-row-order',
              f'row {i} has cell {row[0]!r}, query row is '
              f'{w.cell_ids[i]!r}')
            continue
        counters['csv_rows_checked'] = counters.get(
            'csv_rows_checked', 0) + 1
        for lv, rl in zip(model.hierarchy, readable):
            a = rec[lv]['assignment']
            want = {f'{rl}_label': a,
                    f'{rl}_name': nm.get(lv, {}).get(a, {}).get('name', a),
                    f'{rl}_{conf_label}': '%.4f' % rec[lv][conf_key]}
            if lv == model.leaf_level:
                want[f'{rl}_alias'] = nm.get(lv, {}).get(a, {}).get(
                    'alias', a)
            for h, val in want.items():
                if h not in col:
                    V('C15:csv-missing-column', f'{h} not in {header}')
                    break
                got = row[col[h]]
                if got != val:
                    V('C15:csv-value',
                      f'cell {row[0]} column {h}: CSV has {got!r}, JSON '
                      f'implies {val!r}')
                    break
                if h.endswith('_name') and val != a:
                    counters['csv_cells_translated_through_name_tables'] = \
                        counters.get(
                            'csv_cells_translated_through_name_tables',
                            0) + 1
    # ------------------------------------------------------------ HDF5
    from cell_type_mapper.utils.output_utils import hdf5_to_blob
    blob = _plain(hdf5_to_blob(cfg['hdf5_result_path']))
    hres = blob.get('results')
    if hres is None or len(hres) != len(results):
        V('C15:hdf5-record-count',
          f'{None if hres is None else len(hres)} records, JSON has '
          f'{len(results)}')
    else:
        any_ru = False
        for hrec, rec in zip(hres, results):
            if len(viol) > 8:
                break
            if hrec['cell_id'] != rec['cell_id']:
                V('C15:hdf5-cell-id',
                  f'{hrec["cell_id"]!r} vs {rec["cell_id"]!r}')
                continue
            counters['hdf5_records_checked'] = counters.get(
                'hdf5_records_checked', 0) + 1
            for lv in model.hierarchy:
                a, b = hrec.get(lv), rec[lv]
                if a is None:
                    V('C15:hdf5-level-missing', f'{lv}')
                    break
                keys = ['assignment', 'bootstrapping_probability',
                        'aggregate_probability', 'avg_correlation',
                        'directly_assigned']
                if b.get('directly_assigned'):
                    keys += ['runner_up_assignment',
                             'runner_up_probability',
                             'runner_up_correlation']
                    if b['runner_up_assignment']:
                        any_ru = True
                bad = [k for k in keys if a.get(k) != b.get(k)]
                extra = [k for k in a if k.startswith('runner_up')
                         and not b.get('directly_assigned')]
                if bad or extra:
                    V('C15:hdf5-field',
                      f'cell {rec["cell_id"]} level {lv}: HDF5 '
                      f'{ {k: a.get(k) for k in bad + extra} } vs JSON '
                      f'{ {k: b.get(k) for k in bad + extra} }')
                    break
        if any_ru:
            counters['runs_with_runners_up'] = 1
    for k in ('config', 'log', 'marker_genes', 'taxonomy_tree'):
        if blob.get(k) != js.get(k):
            V('C15:hdf5-metadata', f'{k} differs between HDF5 and JSON')
    # ---------------------------------------------- embedded taxonomy
    tt = js['taxonomy_tree']
    want_tree = model.to_dict(with_cells=False)
    if tt.get('hierarchy') != want_tree['hierarchy']:
        V('C15:taxonomy-hierarchy', f'{tt.get("hierarchy")}')
    else:
        for lv in model.hierarchy:
            got = tt.get(lv, {})
            if set(got.keys()) != set(want_tree[lv].keys()):
                V('C15:taxonomy-nodes', f'level {lv}: {sorted(got)}')
                break
            for n in got:
                if sorted(got[n]) != sorted(want_tree[lv][n]):
                    V('C15:taxonomy-children',
                      f'{lv}/{n}: {got[n]} vs {want_tree[lv][n]}')
                    break
        for k in ('name_mapper', 'hierarchy_mapper'):
            if extras.get(k) != tt.get(k):
                V('C15:taxonomy-name-tables', f'{k} not preserved')
        try:
            from cell_type_mapper.taxonomy.taxonomy_tree import TaxonomyTree
            TaxonomyTree(data=tt)
        except Exception as exc:
            V('C15:taxonomy-does-not-rebuild', repr(exc))
    # ---------------------------------------------- embedded marker table
    c2, d2 = {}, {}
    v2, node_genes = vote_oracle.check_votes(
        w, results, r['trace'], c2, d2, check_outputs=False)
    for key, genes in node_genes.items():
        counters['marker_lists_compared'] = counters.get(
            'marker_lists_compared', 0) + 1
        if set(genes) != set(js['marker_genes'].get(key, [])):
            V('C15:marker-table',
              f'{key}: used {genes}, embedded table lists '
              f'{js["marker_genes"].get(key)}')
    sample = {'csv_head': comments + [','.join(header)]
              + [','.join(x) for x in rows[:1]]}
    feats = mapcases.features_of(spec)
    feats['names'] = (spec.get('name_mapper'), spec.get('nasty_names'))
    return {'violations': viol, 'counters': counters, 'features': feats,
            'nontrivial': counters.get('csv_rows_checked', 0) > 0
            and counters.get('hdf5_records_checked', 0) > 0,
            'sample': sample}
