"""
C02 - assignments are the plurality of bootstrapped nearest-centroid votes.
Offline checker over the guarded trace (chunk / visit / node / draw events)
of real mapping runs: every vote is recomputed from the input files and the
recorded subsets with an independent oracle (own log2(CPM+1), name-based
column selection, longdouble Pearson) and compared with the output.
"""
import numpy as np

from vp import mapcases, mapworld, oracles, vote_oracle

PROPERTY = 'C02'
LEVEL = 'exploration'
CASE_TIMEOUT = 120
BATCH_SIZE = {'quick': 4, 'thorough': 12}
REQUIRED_COUNTERS = ['draws_checked', 'votes_recomputed', 'cell_nodes_exact',
                     'cell_nodes_with_more_than_255_votes_for_a_child',
                     'round_half_cases_checked',
                     'cell_nodes_constant_on_every_subset']
RULE = ('case = generated mapping world (taxonomy, reference profiles, '
        'marker table, query in a different gene order, configuration: '
        'factor 0.1-1 incl. values making factor x n land on .5 or below 1, '
        '1-50 iterations, 0..k+2 runners-up, 1-5 workers, raw / normalised, '
        'dense / CSR / CSC, float32 / float64 / integer counts); the trace '
        'hook must deliver draw events; non-trivial = at least one (cell, '
        'node) pair recomputed exactly (no near-tie / constant vector in '
        'any of its iterations); distinct = distinct feature tuples')
ASSUMPTIONS = [
    'the guarded hook reports the subset actually applied to both matrices '
    '(a hook placed after np.sort of the drawn indices, add-only)',
    'near-ties (|delta corr| < 1e-9, 1e-5 for float32 input) and constant '
    'vectors are don\'t-care and counted',
    'statistics file written by the harness; means = sum/n_cells',
    '"round" is read as Python / numpy define it on the double product '
    'factor*n: an exact .5 goes to the even neighbour (0.5 x 5 -> 2, '
    '0.9 x 5 -> 4); visits at an exact .5 are counted',
]


def gen_cases(tier, seed):
    rng = np.random.default_rng([seed, 102])
    if tier == 'quick':
        cases = mapcases.nasty_quick_cases(rng, 24)
        cases += mapcases.random_large_cases(rng, 24, max_leaves=14,
                                             max_cells=40)
    else:
        cases = mapcases.nasty_quick_cases(rng, 1600)
        cases += mapcases.random_large_cases(rng, 2400, max_leaves=16,
                                             max_cells=120)
        # a few big ones: 300 cells x 80 genes x 12 leaves
        for i in range(20):
            c = mapcases.random_large_cases(rng, 1)[0]
            c.update({'n_cells': 300, 'n_genes': 80, 'n_leaves': 12,
                      'n_levels': int(rng.integers(2, 5)),
                      'chunk_size': int(rng.choice([50, 100, 300]))})
            cases.append(c)
    for i, c in enumerate(cases):
        c['separable'] = bool(rng.random() < 0.4)
        c['noise'] = float(rng.choice([1.0, 2.0, 4.0]))
        c['marker_class'] = str(rng.choice(['complete', 'sparse', 'absentq']))
        m = i % 7
        if m == 0:
            c['x_dtype'] = 'float32'
        elif m == 1 and c['normalization'] == 'raw':
            c['x_dtype'] = str(rng.choice(['int32', 'int64', 'uint16']))
        if i % 5 == 0:
            c['factor_lookup'] = True
        if i % 3 == 1:
            c['root_only_cells'] = 3
            c['n_cells'] = max(c['n_cells'], 5)
        if i % 8 == 3:
            # vote counters must hold more than 255 (and 65535) votes
            c['bootstrap_iteration'] = [256, 300, 255, 700][(i // 8) % 4]
            c['n_cells'] = min(c['n_cells'], 8)
            c['separable'] = True
            c['noise'] = 0.3
        if i % 4 != 3:
            c['n_genes'] = int(rng.integers(30, 90))
            c['marker_kmin'] = int(rng.integers(5, 12))
            c['marker_kmax'] = int(rng.integers(12, 30))
        if i % 3 == 0:
            c['bootstrap_factor'] = float(rng.choice(
                [0.5, 0.25, 0.1, 0.05, 0.75]))
        # keep most subsets at 3+ genes: a 1-gene subset is a constant
        # vector (Pearson undefined, don't-care); a minority is kept to
        # exercise the max(1, .) floor
        kmin = c.get('marker_kmin', 1)
        if kmin * 0.6 * c['bootstrap_factor'] < 3 and i % 6 != 5:
            c['marker_kmin'] = max(kmin, 8)
            c['marker_kmax'] = max(c.get('marker_kmax', 10), 16)
            c['n_genes'] = max(c['n_genes'], 40)
            c['bootstrap_factor'] = max(c['bootstrap_factor'], 0.5)
            c['factor_lookup'] = False
    return cases


def apply_factor_lookup(w, spec):
    if not spec.get('factor_lookup'):
        return
    rng = np.random.default_rng(spec['seed'] + 7)
    red = oracles.reduced_model(w)
    pairs = [['None', float(rng.choice([0.2, 0.5, 0.8, 1.0]))]]
    for lv in red.hierarchy[:-1]:
        pairs.append([lv, float(rng.choice([0.2, 0.5, 0.8, 1.0]))])
    w.config['type_assignment']['bootstrap_factor_lookup'] = pairs
    w.config['type_assignment']['bootstrap_factor'] = None


def run_case(spec, work):
    w = mapworld.build_world(spec, work)
    apply_factor_lookup(w, spec)
    counters, dontcare = {}, {}
    r = mapworld.run_world(w, trace=True)
    if r['exception'] is not None:
        sig, last = oracles.exception_signature(r['traceback'],
                                                r.get('stderr'))
        # the generated inputs satisfy every precondition: a run that
        # raises produced no output to recompute
        return {'violations': [{
                    'sig': f'C02:mapping-raised-on-valid-input:{sig}',
                    'msg': f'mapping raised: {last}'}],
                'counters': {'runs_raised': 1},
                'features': ['raised'], 'nontrivial': True}
    js = r['json']
    viol, node_genes = vote_oracle.check_votes(
        w, js['results'], r['trace'], counters, dontcare)
    n_events = counters.get('votes_recomputed', 0)
    n_dc = dontcare.get('near_tie_votes', 0)
    nontrivial = counters.get('cell_nodes_exact', 0) > 0 and \
        (n_events == 0 or n_dc / max(1, n_events) <= 0.5)
    sample = None
    for pid, evs in r['trace'].items():
        for e in evs:
            if e['kind'] == 'draw':
                sample = {'draw_event': e,
                          'factor': e['factor'], 'n_markers': e['n_markers']}
                break
        if sample:
            break
    feats = mapcases.features_of(spec)
    feats['dtype'] = spec.get('x_dtype', 'float64')
    feats['lookup'] = bool(spec.get('factor_lookup'))
    return {'violations': viol, 'counters': counters, 'dontcare': dontcare,
            'features': feats, 'nontrivial': nontrivial, 'sample': sample}
