"""
C14 - a failed worker fails the run; no partial result passes as success.
Fault enumeration: every worker of every parallel stage x {SIGKILL, SIGTERM,
os._exit(3), sys.exit(7), raise} x {before, mid-way, after its work}, delivered through
the multiprocessing.Process proxy on small inputs; the monitor checks that
the call raises in the parent, that the fault really was delivered, and what
is left on disk.
"""
import json
import pathlib
import traceback

import h5py
import numpy as np

from vp import gen, inject, mapworld, oracles, pipeworld as pw

PROPERTY = 'C14'
LEVEL = 'fault_enumeration'
CASE_TIMEOUT = 240
BATCH_SIZE = {'quick': 1, 'thorough': 1}
REQUIRED_COUNTERS = ['faults_delivered', 'faults_surfaced_as_exception',
                     'mapping_fault_cases']
RULE = ('fault space = stage in {mapping via run_mapping (per-chunk files), '
        'mapping via run_type_assignment_on_h5ad (Manager list), reference '
        'statistics, reference markers (scoring workers), reference markers '
        '(transposition workers), p-value mask, markers from the mask, '
        'query-marker selection, parallel transposition} x every worker the '
        'stage dispatches on a small input (counted by a fault-free dry run) '
        'x {SIGKILL, SIGTERM, os._exit(3), sys.exit(7), raise} x {before, mid, after}.  Thorough = the full '
        'product; quick = every (stage, mode, point) on a rotating worker, and on the first and the last worker for SIGKILL and raise.  '
        'A case is non-trivial when the victim\'s exit code shows the fault '
        'was delivered; distinct = distinct (stage, worker, mode, point)')
ASSUMPTIONS = [
    'workers are forked processes: they inherit the patched module globals',
    'mid-way = first call of one inner function of the stage in the victim',
    'a watchdog bounds every case; its firing is inconclusive',
]

MODES = ['kill', 'term', 'exit', 'sysexit', 'raise']
POINTS = ['before', 'mid', 'after']

STAGES = {
    'mapping': {
        'modules': ['cell_type_mapper.type_assignment.election'],
        'mid': ('cell_type_mapper.type_assignment.election',
                '_run_type_assignment')},
    'mapping_obsm_only': {
        'modules': ['cell_type_mapper.type_assignment.election'],
        'mid': ('cell_type_mapper.type_assignment.election',
                '_run_type_assignment')},
    'mapping_direct': {
        'modules': ['cell_type_mapper.type_assignment.election'],
        'mid': ('cell_type_mapper.type_assignment.election',
                '_run_type_assignment')},
    'stats': {
        'modules': ['cell_type_mapper.diff_exp.precompute_from_anndata'],
        'mid': ('cell_type_mapper.diff_exp.precompute_from_anndata',
                '_process_chunk')},
    'stats_filelist': {
        # the same stage entered through a list of files (four files of
        # equal size, one chunk each, one worker per file or pair of files)
        'modules': ['cell_type_mapper.diff_exp.precompute_from_anndata'],
        'mid': ('cell_type_mapper.diff_exp.precompute_from_anndata',
                '_process_chunk')},
    'refmarkers_score': {
        'modules': ['cell_type_mapper.diff_exp.markers'],
        'mid': ('cell_type_mapper.diff_exp.markers',
                'score_differential_genes')},
    'refmarkers_transpose': {
        'modules': ['cell_type_mapper.utils.csc_to_csr_parallel'],
        'mid': ('cell_type_mapper.utils.csc_to_csr',
                '_calculate_csr_indptr')},
    'refmarkers_small_budget': {
        # the same stage with a budget of a few bytes and many markers per
        # pair: the gene-major tables are built in several load chunks, and
        # how many depends on the budget per worker
        'modules': ['cell_type_mapper.utils.csc_to_csr_parallel'],
        'mid': ('cell_type_mapper.utils.csc_to_csr',
                '_calculate_csr_indptr')},
    'pmask': {
        'modules': ['cell_type_mapper.diff_exp.p_value_mask'],
        'mid': ('cell_type_mapper.diff_exp.p_value_mask',
                'diffexp_p_values_from_stats')},
    'pmask_markers': {
        'modules': ['cell_type_mapper.diff_exp.p_value_markers'],
        'mid': ('cell_type_mapper.diff_exp.p_value_markers',
                '_get_validity_mask')},
    'selection': {
        'modules': ['cell_type_mapper.marker_selection.selection_pipeline'],
        'mid': ('cell_type_mapper.marker_selection.selection',
                '_run_selection')},
    'transpose_v2': {
        'modules': ['cell_type_mapper.utils.csc_to_csr_parallel'],
        'mid': ('cell_type_mapper.utils.csc_to_csr',
                '_calculate_csr_indptr')},
}

REQUIRED_COUNTERS += [f'stage_{s}' for s in STAGES]

# workers dispatched by each stage on the standard small input (measured by
# the dry run of each case; this table only sizes the enumeration)
MAX_WORKERS = 9
N_WORKERS_HINT = {
    'mapping': 4, 'mapping_obsm_only': 4, 'mapping_direct': 4, 'stats': 3, 'stats_filelist': 4, 'refmarkers_score': 2,
    'refmarkers_transpose': 4, 'refmarkers_small_budget': 4, 'pmask': 2, 'pmask_markers': 2,
    'selection': 3, 'transpose_v2': 3,
}


def gen_cases(tier, seed):
    cases = []
    rot = 0
    for stage in STAGES:
        nw = N_WORKERS_HINT[stage]
        for mi, mode in enumerate(MODES):
            for pi, point in enumerate(POINTS):
                if tier == 'thorough':
                    # every worker index a stage can dispatch on these
                    # inputs; indices beyond the dry-run count are skipped
                    workers = list(range(MAX_WORKERS))
                else:
                    # a rotating worker, plus the first and the last one
                    # dispatched (first chunk / root parent / tail chunk)
                    workers = sorted({(seed + rot) % nw, 0, -1}) \
                        if mode in ('kill', 'raise') else \
                        [(seed + rot) % nw]
                    rot += 1
                for wk in workers:
                    cases.append({'stage': stage, 'mode': mode,
                                  'point': point, 'worker': wk,
                                  'seed': 1000 + seed})
                    if tier == 'thorough':
                        # the same fault on a second set of inputs
                        cases.append({'stage': stage, 'mode': mode,
                                      'point': point, 'worker': wk,
                                      'seed': 2000 + seed})
    return cases


class Env(object):
    """the standard small inputs of every stage, built once per case"""

    @classmethod
    def load(cls, work):
        """re-open an Env built by another process (same files)"""
        import pickle
        self = cls.__new__(cls)
        d = pickle.loads((pathlib.Path(work) / 'env.pkl').read_bytes())
        self.__dict__.update(d)
        return self

    def save(self):
        import pickle
        (self.work / 'env.pkl').write_bytes(pickle.dumps(self.__dict__))

    def __init__(self, work, seed, n_leaves=6, n_query=12, n_genes=24):
        self.work = pathlib.Path(work)
        rng = np.random.default_rng(seed)
        self.tmp = self.work / 'tmp'
        self.tmp.mkdir(parents=True, exist_ok=True)
        self.ref = pw.make_reference(rng, self.work, n_levels=3,
                                     n_leaves=n_leaves, n_genes=n_genes,
                                     cells_per_leaf=(8, 12), rich=True)
        # the last quarter of the genes is expressed nowhere: with four
        # workers one whole block of the gene-major marker tables is empty
        nz = max(1, n_genes // 4)
        self.ref.X[:, -nz:] = 0.0
        obs_extra = {lv: [self.ref.model.ancestor(
            self.ref.model.leaf_level, l, lv) for l in self.ref.labels]
            for lv in self.ref.model.hierarchy}
        mapworld.write_h5ad(self.ref.path, self.ref.X, self.ref.cells,
                            self.ref.genes, encoding='csr',
                            obs_extra=obs_extra)
        # the same reference as four files of equal size (2 cells per leaf each)
        m = self.ref.model
        by_leaf = {lf: [i for i, l in enumerate(self.ref.labels) if l == lf]
                   for lf in m.leaves}
        self.ref_parts = []
        part_cells = {lf: [] for lf in m.leaves}
        if all(len(v) >= 8 for v in by_leaf.values()):
            for k in range(4):
                idx = [by_leaf[lf][2 * k + j] for lf in m.leaves
                       for j in (0, 1)]
                pth = self.work / f'ref_part_{k}.h5ad'
                mapworld.write_h5ad(pth, self.ref.X[idx],
                                    [self.ref.cells[i] for i in idx],
                                    self.ref.genes,
                                    encoding=['csr', 'dense', 'csc',
                                              'csr'][k])
                self.ref_parts.append(pth)
                for i in idx:
                    part_cells[self.ref.labels[i]].append(self.ref.cells[i])
        m2 = gen.TaxModel(m.hierarchy, m.nodes, m.parent)
        m2.cells = part_cells
        self.ref_parts_tree = m2.to_dict(with_cells=True)
        # a second, larger reference (14 leaves, 60 genes) for the stage
        # that needs marker tables of several hundred entries
        (self.work / 'big').mkdir(exist_ok=True)
        self.big_ref = pw.make_reference(
            np.random.default_rng(seed + 5), self.work / 'big', n_levels=3,
            n_leaves=14, n_genes=60, cells_per_leaf=(5, 8), rich=True)
        self.big_stats = self.work / 'big' / 'stats.h5'
        self.stats = self.work / 'stats.h5'
        self.refm = self.work / 'refm.h5'
        self.pmask = self.work / 'pmask.h5'
        self.lookup = self.work / 'lookup.json'
        inject.uninstall()
        pw.run_stats(self.ref, self.stats, self.tmp)
        pw.run_stats(self.big_ref, self.big_stats, self.tmp)
        pw.run_ref_markers(self.stats, self.refm, self.tmp)
        pw.run_p_mask(self.stats, self.pmask, self.tmp)
        lk, _ = pw.run_query_markers(self.refm, self.ref.genes, self.lookup,
                                     self.tmp)
        # query = a few reference cells
        self.query = self.work / 'query.h5ad'
        n = n_query
        Xq = self.ref.X[:n].copy()
        # three quarters of the query cells are mixtures of cells of different leaves:
        # their bootstrap votes split and tie between candidate types
        for i in range(n // 4, n):
            a, b = rng.integers(0, len(self.ref.X), size=2)
            for _ in range(20):
                if self.ref.labels[a] != self.ref.labels[b]:
                    break
                b = int(rng.integers(0, len(self.ref.X)))
            Xq[i] = np.floor((self.ref.X[a] + self.ref.X[b]) / 2.0)
        mapworld.write_h5ad(self.query, Xq,
                            [f'q{i}' for i in range(n)], self.ref.genes,
                            encoding='csr')
        self.n_query = n
        # sparse matrix for the direct transposition
        M = (rng.random((9, 12)) < 0.4) * np.arange(1, 109).reshape(9, 12)
        import scipy.sparse
        S = scipy.sparse.csr_matrix(M.astype(np.float32))
        self.sparse = self.work / 'sparse.h5'
        with h5py.File(self.sparse, 'w') as f:
            f.create_dataset('indptr', data=S.indptr)
            f.create_dataset('indices', data=S.indices)
            f.create_dataset('data', data=S.data)
        self.M = M


def run_stage(env, stage, out_dir, n_proc=None):
    """
    runs the stage once; returns (exception or None, dict of output paths)
    n_proc overrides the stage's default worker count
    """
    out_dir.mkdir(parents=True, exist_ok=True)

    def NP(default):
        return default if n_proc is None else n_proc
    outs = {}
    exc = None
    tb = None
    try:
        if stage == 'mapping':
            cfg = pw.mapping_config(out_dir, env.query, env.stats,
                                    env.lookup, chunk_size=3,
                                    n_processors=NP(5),
                                    bootstrap_iteration=2,
                                    bootstrap_factor=0.5, n_runners_up=4)
            outs['config'] = cfg
            from cell_type_mapper.cli.from_specified_markers import (
                run_mapping)
            with pw.quiet():
                run_mapping(config=cfg,
                            output_path=cfg['extended_result_path'],
                            log_path=cfg['log_path'],
                            hdf5_output_path=cfg['hdf5_result_path'])
        elif stage == 'mapping_obsm_only':
            # results requested in the query file only: no JSON, no HDF5
            import shutil as _sh
            qcopy = out_dir / 'query_obsm.h5ad'
            _sh.copy(env.query, qcopy)
            cfg = pw.mapping_config(out_dir, qcopy, env.stats, env.lookup,
                                    chunk_size=3, n_processors=NP(5))
            cfg['extended_result_path'] = None
            cfg['hdf5_result_path'] = None
            cfg['csv_result_path'] = None
            cfg['obsm_key'] = 'mapping'
            outs['config_obsm'] = cfg
            from cell_type_mapper.cli.from_specified_markers import (
                run_mapping)
            with pw.quiet():
                run_mapping(config=cfg, output_path=None,
                            log_path=cfg['log_path'],
                            hdf5_output_path=None)
        elif stage == 'mapping_direct':
            from cell_type_mapper.taxonomy.taxonomy_tree import TaxonomyTree
            from cell_type_mapper.type_assignment.marker_cache_v2 import (
                create_marker_cache_from_specified_markers)
            from cell_type_mapper.type_assignment.election_runner import (
                run_type_assignment_on_h5ad)
            tree = TaxonomyTree.from_precomputed_stats(env.stats)
            cache = out_dir / 'cache.h5'
            lk = json.loads(env.lookup.read_text())
            create_marker_cache_from_specified_markers(
                marker_lookup=lk, reference_gene_names=list(env.ref.genes),
                query_gene_names=list(env.ref.genes),
                output_cache_path=cache, taxonomy_tree=tree, min_markers=2)
            fl = {lv: 0.5 for lv in tree.hierarchy[:-1]}
            fl['None'] = 0.5
            with pw.quiet():
                res = run_type_assignment_on_h5ad(
                    query_h5ad_path=env.query,
                    precomputed_stats_path=env.stats,
                    marker_gene_cache_path=cache, taxonomy_tree=tree,
                    n_processors=NP(5), chunk_size=3,
                    bootstrap_factor_lookup=fl, bootstrap_iteration=6,
                    rng=np.random.default_rng(5), n_assignments=5,
                    normalization='raw', tmp_dir=str(env.tmp), log=None,
                    max_gb=1.0, results_output_path=None)
            outs['returned'] = res
        elif stage == 'stats':
            outs['stats'] = out_dir / 'stats_out.h5'
            pw.run_stats(env.ref, outs['stats'], env.tmp,
                         n_processors=NP(3), rows_at_a_time=4)
        elif stage == 'stats_filelist':
            from cell_type_mapper.diff_exp.precompute_from_anndata import (
                precompute_summary_stats_from_h5ad_list_and_tree)
            from cell_type_mapper.taxonomy.taxonomy_tree import TaxonomyTree
            outs['stats'] = out_dir / 'stats_out.h5'
            with pw.quiet():
                precompute_summary_stats_from_h5ad_list_and_tree(
                    data_path_list=[str(p) for p in env.ref_parts],
                    taxonomy_tree=TaxonomyTree(data=env.ref_parts_tree),
                    output_path=outs['stats'], rows_at_a_time=100,
                    normalization='raw', tmp_dir=str(env.tmp),
                    n_processors=NP(2))
        elif stage in ('refmarkers_score', 'refmarkers_transpose'):
            outs['refm'] = out_dir / 'refm_out.h5'
            pw.run_ref_markers(env.stats, outs['refm'], env.tmp,
                               n_processors=NP(2), add_metadata=False)
        elif stage == 'refmarkers_small_budget':
            outs['refm'] = out_dir / 'refm_out.h5'
            pw.run_ref_markers(env.big_stats, outs['refm'], env.tmp,
                               n_processors=NP(2), add_metadata=False,
                               max_gb=3e-5, n_valid=40, p_th=0.2,
                               q1_th=0.3, q1_min_th=0.05, qdiff_th=0.3,
                               qdiff_min_th=0.05, log2_fold_th=0.5,
                               log2_fold_min_th=0.1,
                               gene_list=[g for k, g in enumerate(
                                   env.big_ref.genes) if k % 4 != 3])
        elif stage == 'pmask':
            outs['pmask'] = out_dir / 'pmask_out.h5'
            pw.run_p_mask(env.stats, outs['pmask'], env.tmp,
                          n_processors=NP(2), n_per=8)
        elif stage == 'pmask_markers':
            outs['refm'] = out_dir / 'refm_out.h5'
            pw.run_markers_from_p_mask(env.stats, env.pmask, outs['refm'],
                                       env.tmp, n_processors=NP(2),
                                       add_metadata=False)
        elif stage == 'selection':
            lk, _ = pw.run_query_markers(env.refm, env.ref.genes, None,
                                         env.tmp, n_processors=NP(3))
            outs['returned'] = lk
        elif stage == 'transpose_v2':
            from cell_type_mapper.utils.csc_to_csr_parallel import (
                transpose_sparse_matrix_on_disk_v2)
            outs['transposed'] = out_dir / 'transposed.h5'
            with pw.quiet():
                transpose_sparse_matrix_on_disk_v2(
                    h5_path=env.sparse, indices_tag='indices',
                    indptr_tag='indptr', data_tag='data', indices_max=12,
                    max_gb=1.0, output_path=outs['transposed'],
                    tmp_dir=str(env.tmp), n_processors=NP(3), uint_ok=False)
    except BaseException as e:
        if isinstance(e, (KeyboardInterrupt, SystemExit)):
            raise
        exc = e
        tb = traceback.format_exc()
    return exc, tb, outs


def later_stage_accepts(env, stage, outs):
    """None if nothing acceptable was left, else a description"""
    if stage in ('stats', 'stats_filelist'):
        p = outs['stats']
        if not p.exists():
            return None
        try:
            from cell_type_mapper.taxonomy.taxonomy_tree import TaxonomyTree
            from cell_type_mapper.diff_exp.score_utils import (
                read_precomputed_stats)
            try:
                tree = TaxonomyTree.from_precomputed_stats(p)
            except Exception:
                # the reference-marker stage is handed its taxonomy as an
                # argument: a file without the embedded tree is still
                # "accepted" if the arrays load against the real tree
                tree = TaxonomyTree.from_precomputed_stats(env.stats)
            read_precomputed_stats(p, tree, for_marker_selection=True)
        except Exception:
            return None
        return f'statistics file {p.name} is readable by the next stage'
    if stage in ('refmarkers_score', 'refmarkers_transpose',
                 'refmarkers_small_budget', 'pmask_markers'):
        p = outs['refm']
        if not p.exists():
            return None
        try:
            from cell_type_mapper.marker_selection.marker_array import (
                MarkerGeneArray)
            MarkerGeneArray.from_cache_path(cache_path=p)
        except Exception:
            return None
        return f'reference marker file {p.name} loads as a MarkerGeneArray'
    if stage == 'pmask':
        p = outs['pmask']
        if not p.exists():
            return None
        try:
            pw.run_markers_from_p_mask(env.stats, p,
                                       p.parent / 'from_partial.h5',
                                       env.tmp, n_processors=1)
        except Exception:
            return None
        return f'p-value mask {p.name} is accepted by the marker finder'
    if stage == 'transpose_v2':
        p = outs['transposed']
        if not p.exists():
            return None
        try:
            with h5py.File(p, 'r') as f:
                ok = all(k in f for k in ('indptr', 'indices', 'data'))
        except Exception:
            return None
        return 'a complete-looking transposed file was left' if ok else None
    return None


def run_case(spec, work):
    stage, mode, point = spec['stage'], spec['mode'], spec['point']
    info = STAGES[stage]
    counters = {}
    viol = []
    env = Env(work, spec['seed'])
    # dry run under the proxy: how many workers does this stage dispatch?
    log0 = env.work / 'inj0'
    inject.install({'log_dir': str(log0)}, info['modules'])
    exc0, tb0, outs0 = run_stage(env, stage, env.work / 'dry')
    codes0, ev0 = inject.collect()
    inject.uninstall()
    if exc0 is not None:
        return {'violations': [], 'counters': {},
                'inconclusive': f'fault-free run of {stage} raised: '
                                f'{(tb0 or "")[-400:]}',
                'features': None, 'nontrivial': False}
    n_workers = len(codes0)
    counters['workers_in_dry_run'] = n_workers
    if n_workers == 0:
        return {'violations': [], 'counters': counters,
                'inconclusive': f'{stage} dispatched no worker',
                'features': None, 'nontrivial': False}
    if spec['worker'] >= n_workers:
        return {'violations': [], 'counters': {'worker_index_beyond_stage': 1},
                'features': None, 'nontrivial': False}
    victim = spec['worker'] % n_workers
    plan = {'log_dir': str(env.work / 'inj1'),
            'fault': {'worker': victim, 'mode': mode, 'point': point,
                      'mid_after': 1}}
    inject.install(plan, info['modules'], mid_target=info['mid'])
    out_dir = env.work / 'faulty'
    with mapworld.capture_stderr(env.work / 'stderr.txt'):
        exc, tb, outs = run_stage(env, stage, out_dir)
    codes, events = inject.collect()
    inject.uninstall()
    delivered = [e for e in events if e.get('ev') == 'fault']
    victim_code = codes[victim] if victim < len(codes) else None
    what = (f'stage={stage} worker={victim}/{n_workers} mode={mode} '
            f'point={point} exit_codes={codes}')
    if delivered and victim_code == 0 and mode in ('raise', 'sysexit') \
            and exc is None:
        # the injected exception was raised inside the victim, yet the
        # victim exited 0 and the call returned: something inside the
        # worker caught it.  Harmless only if the result is the one of the
        # fault-free run (a genuine recovery); otherwise a partial result
        # passed as success
        from vp import stage_runner

        def dg(o):
            try:
                d = stage_runner.digest_outputs(stage, o, None)
                d.pop('tied_vote_records', None)
                return d
            except Exception as e:          # missing / unreadable output
                return {'unreadable': repr(e)[:200]}
        same = dg(outs) == dg(outs0)
        counters['faults_delivered'] = 1
        counters['stage_' + stage] = 1
        if same:
            counters['failures_absorbed_with_identical_result'] = 1
            return {'violations': [], 'counters': counters,
                    'features': [stage, spec['worker'], mode, point],
                    'nontrivial': True}
        return {'violations': [{
                    'sig': f'C14:worker-swallowed-failure[{stage},{point}]',
                    'msg': f'the injected failure was caught inside the '
                           f'worker (exit code 0), the call returned '
                           f'normally and its result differs from the '
                           f'fault-free run; {what}'}],
                'counters': counters,
                'features': [stage, spec['worker'], mode, point],
                'nontrivial': True}
    if not delivered or victim_code in (0, None):
        return {'violations': [], 'counters': counters,
                'inconclusive': f'fault not delivered: {what}',
                'features': None, 'nontrivial': False}
    counters['faults_delivered'] = 1
    counters['stage_' + stage] = 1
    if exc is None:
        viol.append({'sig': f'C14:no-exception[{stage},{point}]',
                     'msg': f'the call returned normally although a worker '
                            f'failed; {what}'})
    else:
        counters['faults_surfaced_as_exception'] = 1
    # what is left behind
    if stage == 'mapping':
        counters['mapping_fault_cases'] = 1
        cfg = outs['config']
        jp = pathlib.Path(cfg['extended_result_path'])
        if not jp.exists():
            viol.append({'sig': 'C14:mapping-no-json-log',
                         'msg': f'no JSON output with the log; {what}'})
        else:
            js = json.loads(jp.read_text())
            if 'results' in js:
                viol.append({'sig': f'C14:mapping-results-written[{point}]',
                             'msg': f'{len(js["results"])} result records '
                                    f'written; {what}'})
            if 'log' not in js or 'config' not in js:
                viol.append({'sig': 'C14:mapping-log-missing',
                             'msg': f'keys {sorted(js)}; {what}'})
            if any('RAN SUCCESSFULLY' in str(x) for x in js.get('log', [])):
                viol.append({'sig': 'C14:mapping-success-message',
                             'msg': what})
        hp = pathlib.Path(cfg['hdf5_result_path'])
        if hp.exists():
            from cell_type_mapper.utils.output_utils import hdf5_to_blob
            try:
                blob = hdf5_to_blob(hp)
                if 'results' in blob:
                    viol.append({'sig': 'C14:mapping-hdf5-results',
                                 'msg': what})
            except Exception as e:
                viol.append({'sig': 'C14:mapping-hdf5-unreadable',
                             'msg': f'{e!r}; {what}'})
        else:
            viol.append({'sig': 'C14:mapping-no-hdf5-log', 'msg': what})
        if pathlib.Path(cfg['csv_result_path']).exists():
            viol.append({'sig': 'C14:mapping-csv-written', 'msg': what})
        lp = pathlib.Path(cfg['log_path'])
        if not lp.exists():
            viol.append({'sig': 'C14:mapping-no-log-file', 'msg': what})
        elif 'RAN SUCCESSFULLY' in lp.read_text():
            viol.append({'sig': 'C14:mapping-success-message', 'msg': what})
    elif stage == 'mapping_obsm_only':
        cfg = outs['config_obsm']
        with h5py.File(cfg['query_path'], 'r') as f:
            if 'obsm' in f and 'mapping' in f['obsm']:
                viol.append({'sig': 'C14:mapping-obsm-written',
                             'msg': f'results stored in obsm; {what}'})
        lp = pathlib.Path(cfg['log_path'])
        if not lp.exists():
            viol.append({'sig': 'C14:mapping-no-log-file', 'msg': what})
        elif 'RAN SUCCESSFULLY' in lp.read_text():
            viol.append({'sig': 'C14:mapping-success-message', 'msg': what})
    elif stage in ('mapping_direct', 'selection'):
        if exc is None and outs.get('returned') is not None:
            pass   # already reported as no-exception
    else:
        acc = later_stage_accepts(env, stage, outs)
        if acc is not None:
            viol.append({'sig': f'C14:partial-output-accepted[{stage}]',
                         'msg': f'{acc}; {what}'})
        counters['outputs_inspected'] = 1
    return {'violations': viol, 'counters': counters,
            'features': [stage, victim, mode, point], 'nontrivial': True,
            'sample': {'case': what,
                       'raised': None if exc is None else repr(exc)[:200],
                       'fault_events': delivered[:2]}}


def extra_evidence(results):
    stages = set()
    for r in results:
        for k in (r.get('counters') or {}):
            if k.startswith('stage_'):
                stages.add(k[6:])
    return {'stages_with_delivered_faults': sorted(stages),
            'fault_space': {'stages': len(STAGES), 'modes': MODES,
                            'points': POINTS}}
