"""
C20 - cloud-safe outputs reveal no absolute path of the host.
Canary monitor: mapping runs (cloud_safe=True) in generated directory layouts
whose directory names carry unique tokens and punctuation; the 'config' and
'log' of the JSON and HDF5 outputs and the log file are scanned for the
tokens and for any absolute path-like substring that exists on the host.
"""
import json
import os
import pathlib
import re
import traceback

import h5py
import numpy as np

import cell_type_mapper
from vp import inject, mapcases, mapworld, oracles
from vp.checks import c14

PROPERTY = 'C20'
LEVEL = 'exploration'
CASE_TIMEOUT = 120
BATCH_SIZE = {'quick': 4, 'thorough': 12}
REQUIRED_COUNTERS = ['outputs_scanned', 'strings_scanned',
                     'failing_runs_scanned', 'successful_runs_scanned',
                     'log_lines_with_sanitised_paths',
                     'failing_runs_without_log_file_scanned']
RULE = ('case = mapping run with cloud_safe=True inside a directory whose '
        'name carries a canary token and punctuation ( ( ) [ ] , = \' + @ ), '
        'either successful or failing on: missing / corrupt / non-HDF5 '
        'query, missing / malformed marker file, marker unknown to the '
        'reference, no usable root marker, negative raw data, wrong '
        'normalisation string, corrupt statistics file, worker fault '
        '(before / mid / after); a third of the runs (every class in turn) '
        'without a separate log file.  Every string of config and log in the '
        'JSON, the HDF5 metadata and the log file is scanned.  Non-trivial '
        '= at least one output with a log was scanned; distinct = distinct '
        '(class, directory-name style) pairs')
ASSUMPTIONS = [
    'a canary token anywhere in a scanned output is a leak (tokens live in '
    'directory names only; file names may appear)',
    'path-like = starts at a "/" not preceded by a path character; a leak '
    'if the string or an ancestor with at least one component exists',
]

DIR_STYLES = [
    'CANARY{t}_plain', 'CANARY{t}(paren)', 'CANARY{t},comma', '[CANARY{t}]',
    'k=CANARY{t}', "CANARY{t}'quote", 'CANARY{t}+plus@at', '(CANARY{t}',
    'CANARY{t})', 'CANARY{t}=', ',CANARY{t}',
    # ordinary names, but so deeply nested that every absolute path is
    # longer than 255 characters (NAME_MAX, not PATH_MAX)
    'CANARY{t}_deep/' + '/'.join(f'level_{k}_of_a_rather_deep_directory_tree'
                                 for k in range(8)),
]

CLASSES = ['success', 'success', 'success', 'missing-query', 'corrupt-query',
           'non-hdf5-query', 'missing-markers', 'malformed-markers',
           'marker-unknown-to-reference', 'no-usable-root', 'negative-raw',
           'wrong-normalization', 'corrupt-stats', 'worker-before',
           'worker-mid', 'worker-after', 'stats-without-sum',
           'stats-without-taxonomy', 'csv-in-missing-directory',
           'stats-tree-mismatch']


def gen_cases(tier, seed):
    rng = np.random.default_rng([seed, 120])
    n = 48 if tier == 'quick' else 3200
    base = mapcases.random_large_cases(rng, n, max_levels=4, max_leaves=10,
                                       max_cells=24)
    cases = []
    for i, c in enumerate(base):
        c['cloud_safe'] = True
        c['klass'] = CLASSES[i % len(CLASSES)]
        c['dir_style'] = int((i // len(CLASSES) + i) % len(DIR_STYLES))
        c['token'] = f'{int(rng.integers(10 ** 6, 10 ** 7))}'
        c['n_cells'] = max(6, min(c['n_cells'], 24))
        c['chunk_size'] = 2
        c['n_processors'] = 4
        c['marker_class'] = 'complete'
        c['spelling'] = bool(i % 3 == 2)
        # a third of the runs (every class in turn) is given no separate log
        # file: the log then only exists inside the JSON / HDF5 outputs
        c['no_log_file'] = bool((i + i // len(CLASSES)) % 3 == 1)
        c.pop('flatten', None)
        cases.append(c)
    return cases


# a "/" right after ":" or "/" belongs to a URL, not to a path
PATHLIKE = re.compile(r'(?<![\w./\-:])(/[^\s"\'<>|:;*?]+)')


def strings_of(obj, out):
    if isinstance(obj, str):
        out.append(obj)
    elif isinstance(obj, dict):
        for k, v in obj.items():
            out.append(str(k))
            strings_of(v, out)
    elif isinstance(obj, (list, tuple)):
        for v in obj:
            strings_of(v, out)


def exposed(candidate):
    """the string itself or an ancestor with >= 1 component exists"""
    p = candidate
    # strip trailing punctuation that commonly follows a path in prose
    variants = {p, p.rstrip('.,)]}\'"')}
    for v in variants:
        q = pathlib.PurePosixPath(v)
        while str(q) not in ('/', '//', '.', ''):
            try:
                if os.path.exists(str(q)):
                    return str(q)
            except (OSError, ValueError):
                pass
            q = q.parent
    return None


def scan(strings, tokens, where, viol, counters):
    for s in strings:
        counters['strings_scanned'] = counters.get('strings_scanned', 0) + 1
        for t in tokens:
            if t in s:
                i = s.index(t)
                viol.append({'sig': f'C20:canary-in-{where}',
                             'msg': f'token {t} found in {where}: '
                                    f'...{s[max(0, i - 120):i + 60]}...'})
                return
        for m in PATHLIKE.finditer(s):
            hit = exposed(m.group(1))
            if hit is not None:
                viol.append({'sig': f'C20:absolute-path-in-{where}',
                             'msg': f'{m.group(1)!r} (exists: {hit}) in '
                                    f'{where}: ...'
                                    f'{s[max(0, m.start() - 80):m.end() + 20]}'
                                    f'...'})
                return
        if 'cell_type_mapper/' in s or '.py' in s:
            counters['log_lines_with_sanitised_paths'] = counters.get(
                'log_lines_with_sanitised_paths', 0) + 1


def run_case(spec, work):
    klass = spec['klass']
    token = spec['token']
    style = DIR_STYLES[spec['dir_style']]
    root = pathlib.Path(work) / style.format(t=token)
    root.mkdir(parents=True)
    w = mapworld.build_world(spec, root)
    rng = np.random.default_rng(spec['seed'] + 20)
    cfg = w.config
    cfg['cloud_safe'] = True
    cfg['extended_result_dir'] = str(root / 'out')
    plan = None
    ind = root / 'in'
    if klass == 'missing-query':
        cfg['query_path'] = str(ind / 'not_there.h5ad')
    elif klass == 'corrupt-query':
        b = w.query_path.read_bytes()
        (ind / 'corrupt.h5ad').write_bytes(b[:len(b) // 3])
        cfg['query_path'] = str(ind / 'corrupt.h5ad')
    elif klass == 'non-hdf5-query':
        (ind / 'text.h5ad').write_text('plain text\n' * 30)
        cfg['query_path'] = str(ind / 'text.h5ad')
    elif klass == 'missing-markers':
        cfg['query_markers']['serialized_lookup'] = str(ind / 'nope.json')
    elif klass == 'malformed-markers':
        (ind / 'bad.json').write_text('{"None": [')
        cfg['query_markers']['serialized_lookup'] = str(ind / 'bad.json')
    elif klass == 'marker-unknown-to-reference':
        t = dict(w.marker_table)
        t['None'] = list(t['None']) + ['gene_that_is_nowhere']
        (ind / 'unk.json').write_text(json.dumps(t))
        cfg['query_markers']['serialized_lookup'] = str(ind / 'unk.json')
    elif klass == 'no-usable-root':
        t = {k: [] for k in w.marker_table}
        (ind / 'noroot.json').write_text(json.dumps(t))
        cfg['query_markers']['serialized_lookup'] = str(ind / 'noroot.json')
    elif klass == 'negative-raw':
        X = np.asarray(w.Xq, dtype=float).copy()
        X[0, 0] = -3.0
        mapworld.write_h5ad(ind / 'neg.h5ad', X, w.cell_ids, w.query_genes,
                            encoding=w.spec['encoding'])
        cfg['query_path'] = str(ind / 'neg.h5ad')
        cfg['type_assignment']['normalization'] = 'raw'
    elif klass == 'wrong-normalization':
        cfg['type_assignment']['normalization'] = 'CPM'
    elif klass == 'corrupt-stats':
        b = w.stats_path.read_bytes()
        (ind / 'cstats.h5').write_bytes(b[:len(b) // 2])
        cfg['precomputed_stats']['path'] = str(ind / 'cstats.h5')
    elif klass in ('stats-without-sum', 'stats-without-taxonomy',
                   'stats-tree-mismatch'):
        # structurally valid HDF5 that lacks / contradicts what the mapper
        # needs: the error messages quote the file on a line of their own
        import shutil as _sh
        bad = ind / 'odd_stats.h5'
        _sh.copy(w.stats_path, bad)
        with h5py.File(bad, 'a') as f:
            if klass == 'stats-without-sum':
                del f['sum']
            elif klass == 'stats-without-taxonomy':
                del f['taxonomy_tree']
            else:
                t = json.loads(f['taxonomy_tree'][()].decode('utf-8'))
                lf = t['hierarchy'][-1]
                t[lf]['leaf_not_in_the_stats'] = []
                if len(t['hierarchy']) > 1:
                    up = t['hierarchy'][-2]
                    first = sorted(t[up].keys())[0]
                    t[up][first] = list(t[up][first]) + [
                        'leaf_not_in_the_stats']
                del f['taxonomy_tree']
                f.create_dataset('taxonomy_tree',
                                 data=json.dumps(t).encode('utf-8'))
        cfg['precomputed_stats']['path'] = str(bad)
    elif klass == 'csv-in-missing-directory':
        cfg['csv_result_path'] = str(root / 'out' / 'no_such_dir'
                                     / 'result.csv')
    elif klass.startswith('worker-'):
        plan = {'log_dir': str(root / 'inj'),
                'fault': {'worker': int(rng.integers(0, 3)),
                          'mode': str(rng.choice(['kill', 'exit', 'raise'])),
                          'point': klass.split('-')[1], 'mid_after': 1},
                'mid_target': c14.STAGES['mapping']['mid']}
    counters, viol = {}, []
    if spec.get('spelling'):
        # the same locations spelled the way shell concatenation produces
        # them: a doubled separator or a '/./' segment in front of the name
        def respell(p, k):
            if not isinstance(p, str) or not p.startswith('/'):
                return p
            head, tail = p.rsplit('/', 1)
            return head + ('//' if k % 2 == 0 else '/./') + tail
        k = 0
        for key in ('query_path', 'extended_result_path', 'csv_result_path',
                    'hdf5_result_path', 'log_path', 'tmp_dir',
                    'extended_result_dir'):
            if cfg.get(key):
                cfg[key] = respell(cfg[key], k)
                k += 1
        cfg['precomputed_stats']['path'] = respell(
            cfg['precomputed_stats']['path'], 0)
        cfg['query_markers']['serialized_lookup'] = respell(
            cfg['query_markers']['serialized_lookup'], 1)
        counters['runs_with_unnormalised_path_spellings'] = 1
    if spec.get('no_log_file'):
        cfg['log_path'] = None
    r = mapworld.run_world(w, trace=False, plan=plan, config=cfg)
    failed = r['exception'] is not None
    if klass == 'success' and failed:
        sig, last = oracles.exception_signature(r['traceback'],
                                                r.get('stderr'))
        return {'violations': [{
                    'sig': f'C20:mapping-raised-on-valid-input:{sig}',
                    'msg': f'a run on valid input raised: {last}'}],
                'counters': {}, 'features': ['raised'], 'nontrivial': True}
    if klass != 'success' and not failed:
        # e.g. a single-child root needs no markers, a fault on a worker
        # that was never dispatched: nothing to learn for this class
        klass = klass + '(did-not-fail)'
    tokens = [token, 'CANARY', pathlib.Path(work).parent.name]
    scanned = 0
    jp = pathlib.Path(cfg['extended_result_path'])
    if jp.exists():
        js = json.loads(jp.read_text())
        for key in ('config', 'log', 'metadata'):
            ss = []
            strings_of(js.get(key), ss)
            scan(ss, tokens, f'json-{key}', viol, counters)
        if 'results' in js and failed:
            viol.append({'sig': 'C20:results-in-failed-run',
                         'msg': 'failed run wrote results'})
        for k in ('tmp_dir', 'extended_result_dir'):
            if k in (js.get('config') or {}):
                viol.append({'sig': 'C20:directory-key-in-config',
                             'msg': f'{k} present in the recorded config'})
        scanned += 1
    hp = pathlib.Path(cfg['hdf5_result_path']) \
        if cfg['hdf5_result_path'] else None
    if hp is not None and hp.exists():
        try:
            with h5py.File(hp, 'r') as f:
                meta = json.loads(f['metadata'][()].decode('utf-8'))
            for key in ('config', 'log', 'metadata'):
                ss = []
                strings_of(meta.get(key), ss)
                scan(ss, tokens, f'hdf5-{key}', viol, counters)
            scanned += 1
        except Exception as exc:
            viol.append({'sig': 'C20:hdf5-metadata-unreadable',
                         'msg': repr(exc)})
    lp = pathlib.Path(cfg['log_path']) if cfg['log_path'] else None
    if lp is not None and lp.exists():
        scan(lp.read_text().splitlines(), tokens, 'log-file', viol,
             counters)
        scanned += 1
    counters['outputs_scanned'] = scanned
    if scanned:
        if failed:
            counters['failing_runs_scanned'] = 1
            if spec.get('no_log_file'):
                counters['failing_runs_without_log_file_scanned'] = 1
        else:
            counters['successful_runs_scanned'] = 1
        counters['class_' + klass] = 1
    return {'violations': viol[:6], 'counters': counters,
            'features': [klass, spec['dir_style']],
            'nontrivial': scanned > 0,
            'sample': {'class': klass,
                       'directory': style.format(t=token),
                       'outputs_scanned': scanned}}
