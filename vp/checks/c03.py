"""
C03 - arithmetic contract of the confidence fields.  Invariants asserted on
every level record of every generated mapping output (JSON and the HDF5
read-back), plus a record-only icontract post-condition on the real
choose_node / tally_votes evaluated inside the forked workers.
"""
import os

import numpy as np

from vp import contracts, mapcases, mapworld, oracles

PROPERTY = 'C03'
LEVEL = 'exploration'
CASE_TIMEOUT = 90
BATCH_SIZE = {'quick': 6, 'thorough': 24}
REQUIRED_COUNTERS = ['direct_level_records', 'voted_records',
                     'top_chains_of_two_or_more_levels',
                     'contract_choose_node_evaluations',
                     'hdf5_records_checked']
RULE = ('same corpus as C01 (taxonomy shape x marker class x query x '
        'configuration) re-weighted to 1 iteration, 0 runners-up and more '
        'runners-up than siblings; non-trivial = at least one voted level '
        'record was examined; distinct = distinct feature tuples')
ASSUMPTIONS = [
    'inputs satisfy the C01 preconditions',
    'float comparisons: integrality of votes within 1e-6, sums within 1e-9, '
    'aggregate product within 1e-12 relative, correlations within 1e-9 of '
    '[-1,1]',
]


def gen_cases(tier, seed):
    rng = np.random.default_rng([seed, 103])
    if tier == 'quick':
        cases = mapcases.nasty_quick_cases(rng, 64)
        cases += mapcases.random_large_cases(rng, 16, max_cells=60)
    else:
        cases = mapcases.exhaustive_shape_cases(rng)
        cases += mapcases.random_large_cases(rng, 2000)
        cases += mapcases.nasty_quick_cases(rng, 1600)
    for i, c in enumerate(cases):
        m = i % 6
        if m == 0:
            c['bootstrap_iteration'] = 1
        elif m == 1:
            c['n_runners_up'] = 0
        elif m == 2:
            c['n_runners_up'] = 9       # more than any sibling count here
        if m >= 2:
            c['separable'] = False      # spread votes over many children
            c['noise'] = 4.0
            c['bootstrap_factor'] = float(rng.choice([0.1, 0.3, 0.5]))
            if c['bootstrap_iteration'] == 1:
                c['bootstrap_iteration'] = 20
        c['with_hdf5'] = True
        if i % 2 == 0:
            # cells that are constant (and non-zero) across all genes:
            # their correlation with anything is undefined
            c['flat_cells'] = 8
            c['n_cells'] = max(c['n_cells'], 8)
        if i % 9 == 4:
            c['bootstrap_iteration'] = int(rng.choice([256, 300, 1000]))
            c['n_cells'] = min(c['n_cells'], 8)
    return cases


def _plain(o):
    if isinstance(o, dict):
        return {k: _plain(v) for k, v in o.items()}
    if isinstance(o, (list, tuple)):
        return [_plain(v) for v in o]
    if hasattr(o, 'item'):
        return o.item()
    return o


def run_case(spec, work):
    contracts.install()
    w = mapworld.build_world(spec, work)
    log = str(w.work / 'contracts.log')
    os.environ['VP_CONTRACT_LOG'] = log
    counters = {}
    viol = []
    sample = None
    try:
        r = mapworld.run_world(w, trace=False)
    finally:
        os.environ.pop('VP_CONTRACT_LOG', None)
    nontrivial = False
    if r['exception'] is not None:
        sig, last = oracles.exception_signature(r['traceback'],
                                                r.get('stderr'))
        # crashes on valid input belong to C01; here they only make the
        # case unusable
        return {'violations': [{
                    'sig': f'C03:mapping-raised-on-valid-input:{sig}',
                    'msg': f'mapping raised: {last}'}],
                'counters': {'runs_raised': 1},
                'features': ['raised'], 'nontrivial': True}
    js = r['json']
    viol += oracles.check_confidence(w, js['results'], counters)
    nontrivial = counters.get('voted_records', 0) > 0
    # HDF5 read-back obeys the same contract
    if w.config['hdf5_result_path']:
        from cell_type_mapper.utils.output_utils import hdf5_to_blob
        blob = _plain(hdf5_to_blob(w.config['hdf5_result_path']))
        c2 = {}
        v2 = oracles.check_confidence(w, blob['results'], c2)
        for v in v2:
            v['sig'] = v['sig'].replace('C03:', 'C03:hdf5-')
        viol += v2
        counters['hdf5_records_checked'] = c2.get('direct_level_records', 0)
    counts, fails = contracts.read_log(log)
    counters['contract_choose_node_evaluations'] = counts.get(
        'choose_node', 0)
    counters['contract_tally_votes_evaluations'] = counts.get(
        'tally_votes', 0)
    for name, detail in fails[:5]:
        viol.append({'sig': f'C03:contract-{name}',
                     'msg': f'post-condition of {name} failed inside a '
                            f'worker: {detail[:500]}'})
    for rec in js['results']:
        for lv in w.model.hierarchy:
            if rec[lv].get('runner_up_assignment'):
                sample = {'level': lv, 'record': rec[lv],
                          'n_runners_up': w.config['type_assignment'][
                              'n_runners_up'],
                          'iterations': w.config['type_assignment'][
                              'bootstrap_iteration']}
                break
        if sample:
            break
    return {'violations': viol, 'counters': counters,
            'features': mapcases.features_of(spec),
            'nontrivial': nontrivial, 'sample': sample}
