"""
C08 - markers reconciled with the query by name, with ancestor fallback.

Reference model of the statement (used(p) = own(p) n Q, ancestors' listed
sets nearest first until the minimum is reached, then the root's) compared
with what the real code does, observed at three points: the marker cache it
writes (layer 1, many tables per case), and - end to end - the
'marker_genes' of the JSON output, the gene lists of the guarded 'node'
trace events and the raised errors.
"""
import json
import traceback

import h5py
import numpy as np

from vp import gen, mapcases, mapworld, oracles, vote_oracle

PROPERTY = 'C08'
LEVEL = 'exploration'
CASE_TIMEOUT = 120
BATCH_SIZE = {'quick': 4, 'thorough': 12}
REQUIRED_COUNTERS = ['parents_checked', 'fallback_parents',
                     'e2e_node_events_checked', 'expected_errors_seen',
                     'e2e_queries_with_marker_interior_shuffled',
                     'e2e_votes_recomputed_by_name',
                     'e2e_queries_with_all_markers_beyond_column_255',
                     'tables_root_unusable_at_min_markers_zero']
RULE = ('layer 1: generated (taxonomy, marker table, query gene set, '
        'min_markers, flatten / dropped level) fed to the real '
        'create_marker_cache_from_specified_markers, cache file read back; '
        'layer 2: end-to-end mappings.  Table classes: missing parents, '
        'empty lists, duplicates, genes absent from the query, genes absent '
        'from the reference, stale keys, unusable root.  Non-trivial = at '
        'least one parent needed the ancestor fallback or an error was '
        'expected; distinct = distinct (shape, class, min_markers, flatten, '
        'drop) tuples')
ASSUMPTIONS = [
    'a gene unknown to the reference is generated either inside the query '
    'gene set, or absent from the query but in a list that is used as it '
    'stands (the root\'s, or a parent\'s with enough own markers in the '
    'query); an unknown gene absent from the query inside a list that is '
    'replaced by the ancestor fallback is silently dropped by the code and '
    'the statement is read as not covering it',
    'single-child parents and a single-child root may carry any list',
]


# ------------------------------------------------------------ the model

def model_used(red, table, Q, min_markers):
    """
    returns (expected dict parent key -> set of genes, error flag)
    following the statement; red is the model of the tree actually voted on
    """
    Q = set(Q)
    expected = {}
    root_kids = red.children(None, None)
    error = False
    root_own = set(table.get('None', []))
    if len(root_kids) > 1:
        if len(root_own & Q) == 0:
            error = True
        expected['None'] = root_own & Q
    for lv in red.hierarchy[:-1]:
        for node in red.nodes[lv]:
            kids = red.children(lv, node)
            key = f'{lv}/{node}'
            if len(kids) < 2:
                continue
            own = set(table.get(key, []))
            used = own & Q
            if len(used) < min_markers:
                acc = set(own)
                anc = red.ancestors(lv, node)
                done = False
                for alv in reversed(red.hierarchy[:red.level_index(lv)]):
                    akey = f'{alv}/{anc[alv]}'
                    if akey in table:
                        acc |= set(table[akey])
                        if len(acc & Q) >= min_markers:
                            done = True
                            break
                if not done:
                    acc |= root_own
                used = acc & Q
            if len(used) == 0:
                error = True
            expected[key] = used
    return expected, error


def unpatched_keys(red, table, Q, min_markers):
    """
    keys of consulted parents (> 1 child) whose own list is used as it
    stands: the root, and parents with enough own markers in the query
    """
    Q = set(Q)
    keys = []
    if len(red.children(None, None)) > 1 and 'None' in table:
        keys.append('None')
    for lv in red.hierarchy[:-1]:
        for node in red.nodes[lv]:
            key = f'{lv}/{node}'
            if len(red.children(lv, node)) > 1 and key in table and \
                    len(set(table[key]) & Q) >= min_markers:
                keys.append(key)
    return keys


def wild_table(rng, model, ref_genes, Q, min_markers):
    """marker table over the stored taxonomy, all classes mixed"""
    inq = [g for g in ref_genes if g in Q]
    notq = [g for g in ref_genes if g not in Q]
    table = {}

    def draw(k):
        k_in = int(rng.integers(0, k + 1))
        lst = []
        if inq and k_in:
            lst += list(rng.choice(inq, size=min(k_in, len(inq)),
                                   replace=False))
        if notq and k - k_in:
            lst += list(rng.choice(notq, size=min(k - k_in, len(notq)),
                                   replace=False))
        rng.shuffle(lst)
        lst = [str(g) for g in lst]
        if lst and rng.random() < 0.2:
            lst.append(lst[0])        # duplicate
        return lst

    for parent in model.all_parents():
        key = model.parent_key(parent)
        r = rng.random()
        if parent is None:
            table[key] = draw(int(rng.integers(1, 9)))
            if not set(table[key]) & Q and inq:
                table[key].append(str(inq[0]))
            continue
        if r < 0.2:
            continue
        elif r < 0.32:
            table[key] = []
        elif r < 0.6:
            table[key] = draw(int(rng.integers(1, max(2, min_markers))))
        else:
            table[key] = draw(int(rng.integers(1, 12)))
    if rng.random() < 0.3 and notq:
        table['ghost/ghost'] = [str(notq[0])]
    return table


def make_layer1(rng):
    d = int(rng.integers(1, 6))
    k = int(rng.integers(1, 16))
    forest = gen.random_forest(rng, d, k)
    model = gen.build_from_shape(forest, d, rng)
    n_genes = int(rng.integers(6, 40))
    ref_genes = gen.gene_names(rng, n_genes)
    keep = rng.random(n_genes) < rng.choice([0.3, 0.6, 0.9])
    if keep.sum() == 0:
        keep[0] = True
    q = [g for g, kp in zip(ref_genes, keep) if kp]
    q += [f'xq{i}' for i in range(int(rng.integers(0, 4)))]
    rng.shuffle(q)
    min_markers = int(rng.integers(1, 11))
    table = wild_table(rng, model, ref_genes, set(q), min_markers)
    klass = 'wild'
    r = rng.random()
    if r < 0.1:
        # unusable root
        table['None'] = [g for g in table['None'] if g not in set(q)]
        klass = 'root-unusable'
    elif r < 0.1 + 0.06:
        # marker unknown to the reference and absent from the query, in a
        # list that is used as it stands (added in run_layer1, once the
        # tree actually voted on is known)
        klass = 'unknown-to-reference-absent-from-query'
    elif r < 0.2:
        # marker unknown to the reference (present in the query)
        unk = 'unk_gene'
        q.append(unk)
        key = list(table.keys())[int(rng.integers(len(table)))]
        table[key] = list(table[key]) + [unk]
        klass = 'unknown-to-reference'
    elif r < 0.25:
        # query shares no marker with the table
        q = [f'zz{i}' for i in range(5)]
        klass = 'no-shared-marker'
    elif r < 0.31:
        # minimum of zero markers: nothing is ever patched, but a root
        # whose (non-empty) list has no gene in the query is still an error
        notq = [g for g in ref_genes if g not in set(q)]
        inq = [g for g in ref_genes if g in set(q)]
        if notq and inq:
            min_markers = 0
            table['None'] = [str(g) for g in notq[:3]]
            for parent in model.all_parents():
                if parent is None:
                    continue
                key = model.parent_key(parent)
                table[key] = list(table.get(key, [])) + [str(inq[0])]
            klass = 'root-unusable-min-markers-zero'
    flatten = bool(rng.random() < 0.2)
    drop = None
    if not flatten and d > 1 and rng.random() < 0.4:
        drop = model.hierarchy[int(rng.integers(0, d - 1))]
    return model, ref_genes, q, table, min_markers, flatten, drop, klass


def run_layer1(spec, work, counters, viol, feats):
    from cell_type_mapper.taxonomy.taxonomy_tree import TaxonomyTree
    from cell_type_mapper.type_assignment.marker_cache_v2 import (
        create_marker_cache_from_specified_markers)
    rng = np.random.default_rng(spec['seed'])
    sample = None
    for it in range(spec['n_tables']):
        (model, ref_genes, q, table, min_markers, flatten, drop,
         klass) = make_layer1(rng)
        red = model
        tbl = dict(table)
        if drop is not None:
            red = red.drop_level(drop)
        if flatten:
            red = red.flatten()
            allm = set()
            for k in tbl:
                allm |= set(tbl[k])
            tbl = {'None': sorted(allm)}
        if klass == 'unknown-to-reference-absent-from-query':
            keys = unpatched_keys(red, tbl, q, min_markers)
            if keys:
                key = keys[int(rng.integers(len(keys)))]
                tbl[key] = list(tbl[key]) + ['unk_absent_gene']
            else:
                klass = 'wild'
        expected, want_error = model_used(red, tbl, q, min_markers)
        if len(red.children(None, None)) < 2 and \
                not (set(tbl.get('None', [])) & set(q)):
            # single-child root whose list is unusable: 'a root without
            # usable markers is an error' and 'a single-child parent needs
            # no markers' both apply; either outcome accepted
            counters['dontcare_single_child_root_unusable'] = counters.get(
                'dontcare_single_child_root_unusable', 0) + 1
            continue
        unknown = set()
        for k in tbl:
            unknown |= set(tbl[k]) - set(ref_genes)
        if unknown:
            want_error = True
        tree = TaxonomyTree(data=red.to_dict(with_cells=False))
        cache = work / f'cache_{it}.h5'
        err = None
        try:
            create_marker_cache_from_specified_markers(
                marker_lookup=tbl,
                reference_gene_names=list(ref_genes),
                query_gene_names=list(q),
                output_cache_path=cache,
                taxonomy_tree=tree,
                min_markers=min_markers)
        except Exception as e:
            err = e
            tb = traceback.format_exc()
        counters['tables'] = counters.get('tables', 0) + 1
        feats.add((len(model.hierarchy), klass, min_markers, flatten,
                   drop is not None))
        ctx = {'tree': red.to_dict(with_cells=False), 'table': tbl,
               'query_genes': q, 'min_markers': min_markers,
               'class': klass}
        if klass == 'root-unusable-min-markers-zero' and \
                len(red.children(None, None)) > 1:
            counters['tables_root_unusable_at_min_markers_zero'] = \
                counters.get('tables_root_unusable_at_min_markers_zero',
                             0) + 1
        if want_error:
            counters['expected_errors_seen'] = counters.get(
                'expected_errors_seen', 0) + (1 if err is not None else 0)
            if err is None:
                viol.append({'sig': f'C08:no-error[{klass}]',
                             'msg': f'marker table of class {klass} was '
                                    f'accepted: {json.dumps(ctx)[:800]}'})
            continue
        if err is not None:
            sig, last = oracles.exception_signature(tb)
            viol.append({'sig': f'C08:unexpected-error[{klass}]:{sig}',
                         'msg': f'{last} :: {json.dumps(ctx)[:800]}'})
            continue
        # read the cache back with raw h5py
        with h5py.File(cache, 'r') as src:
            qn = json.loads(src['query_gene_names'][()].decode())
            rn = json.loads(src['reference_gene_names'][()].decode())
            for key, want in expected.items():
                counters['parents_checked'] = counters.get(
                    'parents_checked', 0) + 1
                own_q = set(tbl.get(key, [])) & set(q)
                if want != own_q:
                    counters['fallback_parents'] = counters.get(
                        'fallback_parents', 0) + 1
                if key not in src:
                    viol.append({'sig': 'C08:parent-missing-from-cache',
                                 'msg': f'{key}: {json.dumps(ctx)[:800]}'})
                    continue
                ri = src[key]['reference'][()]
                qi = src[key]['query'][()]
                rnames = [rn[i] for i in ri]
                qnames = [qn[i] for i in qi]
                if rnames != qnames:
                    viol.append({'sig': 'C08:name-pairing',
                                 'msg': f'{key}: reference columns name '
                                        f'{rnames}, query columns {qnames}'})
                    continue
                if set(rnames) != want or len(rnames) != len(set(rnames)):
                    viol.append({'sig': 'C08:wrong-marker-set',
                                 'msg': f'{key}: code uses {sorted(rnames)}'
                                        f', statement gives {sorted(want)}'
                                        f' :: {json.dumps(ctx)[:900]}'})
            if sample is None and expected:
                k0 = sorted(expected.keys())[-1]
                sample = {'parent': k0, 'listed': tbl.get(k0),
                          'expected_used': sorted(expected[k0]),
                          'min_markers': min_markers}
        cache.unlink()
        if len(viol) > 10:
            break
    return sample


# ------------------------------------------------------------ end to end

def run_e2e(spec, work, counters, viol, feats):
    w = mapworld.build_world(spec, work)
    rng = np.random.default_rng(spec['seed'] + 1)
    klass = spec.get('e2e_class', 'wild')
    Q = set(w.query_genes)
    table = wild_table(rng, w.model, w.ref_genes, Q,
                       w.config['type_assignment']['min_markers'])
    if klass == 'root-unusable':
        table['None'] = [g for g in table['None'] if g not in Q]
    elif klass == 'unknown-to-reference':
        # a gene in the query that the reference lacks
        extra = [g for g in w.query_genes if g not in set(w.ref_genes)]
        if not extra:
            klass = 'wild'
        else:
            key = sorted(table.keys())[int(rng.integers(len(table)))]
            table[key] = list(table[key]) + [extra[0]]
    elif klass == 'unknown-to-reference-absent-from-query':
        keys = unpatched_keys(
            oracles.reduced_model(w), table, Q,
            w.config['type_assignment']['min_markers'])
        if w.config['flatten']:
            keys = sorted(table.keys())
        if not keys:
            klass = 'wild'
        else:
            key = keys[int(rng.integers(len(keys)))]
            table[key] = list(table[key]) + ['unk_absent_gene']
    w.marker_table = table
    w.marker_path.write_text(json.dumps(table))
    if spec.get('e2e_order') == 'markers-interior-shuffled':
        # query written in the reference's gene order, except that the
        # genes between the first and the last marker of this table are
        # shuffled: pairing by position instead of by name would go wrong
        qpos = {g: i for i, g in enumerate(w.query_genes)}
        order = [qpos[g] for g in w.ref_genes if g in qpos] + \
            [i for i, g in enumerate(w.query_genes)
             if g not in set(w.ref_genes)]
        allm = set()
        for v in table.values():
            allm |= set(v)
        mk = [k for k, i in enumerate(order) if w.query_genes[i] in allm]
        if len(mk) >= 4:
            inner = np.arange(mk[0] + 1, mk[-1])
            order = np.array(order)
            order[inner] = order[rng.permutation(inner)]
            w.Xq = w.Xq[:, order]
            w.query_genes = [w.query_genes[i] for i in order]
            mapworld.write_h5ad(w.query_path, w.Xq, w.cell_ids,
                                w.query_genes,
                                encoding=w.spec['encoding'])
            counters['e2e_queries_with_marker_interior_shuffled'] = 1
    if len(w.query_genes) > 256 and all(
            g.startswith('xq') for g in w.query_genes[:256]):
        counters['e2e_queries_with_all_markers_beyond_column_255'] = 1
    red = oracles.reduced_model(w)
    tbl = dict(table)
    if w.config['flatten']:
        allm = set()
        for k in tbl:
            allm |= set(tbl[k])
        tbl = {'None': sorted(allm)}
    mm = w.config['type_assignment']['min_markers']
    expected, want_error = model_used(red, tbl, w.query_genes, mm)
    if len(red.children(None, None)) < 2 and \
            not (set(tbl.get('None', [])) & Q):
        counters['dontcare_single_child_root_unusable'] = counters.get(
            'dontcare_single_child_root_unusable', 0) + 1
        return None
    for k in tbl:
        if set(tbl[k]) - set(w.ref_genes):
            want_error = True
    r = mapworld.run_world(w, trace=True)
    feats.add((len(w.model.hierarchy), 'e2e-' + klass, mm,
               w.config['flatten'], w.config['drop_level'] is not None))
    counters['e2e_runs'] = counters.get('e2e_runs', 0) + 1
    ctx = {'tree': red.to_dict(with_cells=False), 'table': tbl,
           'min_markers': mm, 'class': klass}
    if want_error:
        ok = r['exception'] is not None
        counters['expected_errors_seen'] = counters.get(
            'expected_errors_seen', 0) + (1 if ok else 0)
        if not ok:
            viol.append({'sig': f'C08:e2e-no-error[{klass}]',
                         'msg': f'run mapped instead of failing: '
                                f'{json.dumps(ctx)[:800]}'})
        elif r['json'] is not None and 'results' in r['json']:
            viol.append({'sig': 'C08:e2e-results-despite-error',
                         'msg': 'failed run wrote results'})
        return None
    if r['exception'] is not None:
        sig, last = oracles.exception_signature(r['traceback'],
                                                r.get('stderr'))
        viol.append({'sig': f'C08:e2e-unexpected-error[{klass}]:{sig}',
                     'msg': f'{last} :: {json.dumps(ctx)[:800]}'})
        return None
    js = r['json']
    mg = js['marker_genes']
    # (1) the output reports what the statement prescribes
    for key, want in expected.items():
        counters['parents_checked'] = counters.get('parents_checked', 0) + 1
        if want != (set(tbl.get(key, [])) & Q):
            counters['fallback_parents'] = counters.get(
                'fallback_parents', 0) + 1
        got = mg.get(key)
        if got is None or set(got) != want or len(got) != len(set(got)):
            viol.append({'sig': 'C08:e2e-reported-markers',
                         'msg': f'{key}: output reports {got}, statement '
                                f'gives {sorted(want)} :: '
                                f'{json.dumps(ctx)[:800]}'})
    # single-child parents report nothing
    for lv in red.hierarchy[:-1]:
        for node in red.nodes[lv]:
            if len(red.children(lv, node)) < 2:
                got = mg.get(f'{lv}/{node}')
                if got:
                    viol.append({'sig': 'C08:e2e-single-child-markers',
                                 'msg': f'{lv}/{node} reports {got}'})
    # (2) the genes actually multiplied (node events) are the same
    c2, d2 = {}, {}
    # ... and query / reference values are paired by name: every vote,
    # probability and correlation recomputed by the name-based oracle
    v2, node_genes = vote_oracle.check_votes(
        w, js['results'], r['trace'], c2, d2, check_outputs=True)
    viol += [dict(v, sig=v['sig'].replace('C02:', 'C08:e2e-values-'))
             for v in v2]
    counters['e2e_votes_recomputed_by_name'] = counters.get(
        'e2e_votes_recomputed_by_name', 0) + c2.get('votes_recomputed', 0)
    for key, genes in node_genes.items():
        counters['e2e_node_events_checked'] = counters.get(
            'e2e_node_events_checked', 0) + 1
        want = expected.get(key)
        if want is None or set(genes) != want:
            viol.append({'sig': 'C08:e2e-used-markers',
                         'msg': f'{key}: node event lists {genes}, '
                                f'statement gives '
                                f'{sorted(want) if want else want}'})
        if set(genes) != set(mg.get(key, [])):
            viol.append({'sig': 'C08:e2e-reported-differs-from-used',
                         'msg': f'{key}: used {genes}, reported '
                                f'{mg.get(key)}'})
    return {'parent': sorted(expected.keys())[-1] if expected else None,
            'reported': mg}


def gen_cases(tier, seed):
    rng = np.random.default_rng([seed, 108])
    cases = []
    n1 = 12 if tier == 'quick' else 1600
    for i in range(n1):
        cases.append({'mode': 'layer1', 'seed': int(rng.integers(2 ** 31)),
                      'n_tables': 60})
    n2 = 40 if tier == 'quick' else 3200
    e2e = mapcases.nasty_quick_cases(rng, n2 // 2) + \
        mapcases.random_large_cases(rng, n2 - n2 // 2, max_leaves=14,
                                    max_cells=30)
    for i, c in enumerate(e2e):
        c['mode'] = 'e2e'
        c['bootstrap_iteration'] = int(rng.choice([1, 3]))
        c['n_cells'] = min(c['n_cells'], 20)
        c['e2e_class'] = ['wild', 'wild', 'wild', 'wild', 'root-unusable',
                          'unknown-to-reference', 'wild',
                          'unknown-to-reference-absent-from-query'][i % 8]
        if i % 2 == 0:
            c['e2e_order'] = 'markers-interior-shuffled'
        if i % 5 == 2:
            # a query much wider than the reference, every marker beyond
            # column 255
            c['n_extra_genes'] = int(rng.integers(280, 420))
            c['extra_first'] = True
            c['e2e_order'] = None
            c['query_order'] = None
        cases.append(c)
    return cases


def run_case(spec, work):
    counters, viol = {}, []
    feats = set()
    if spec['mode'] == 'layer1':
        sample = run_layer1(spec, work, counters, viol, feats)
    else:
        sample = run_e2e(spec, work, counters, viol, feats)
    nontrivial = (counters.get('fallback_parents', 0) > 0
                  or counters.get('expected_errors_seen', 0) > 0)
    return {'violations': viol[:12], 'counters': counters,
            'features': sorted(feats, key=str), 'nontrivial': nontrivial,
            'sample': sample}
