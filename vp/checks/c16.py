"""
C16 - validation rewrites identifiers and integers without altering the data.
Reference-model monitor around the real validate_h5ad on generated files.
"""
import json
import pathlib
import traceback

import anndata
import h5py
import numpy as np
import pandas as pd
import scipy.sparse

from vp import fsmon, mapworld, oracles
from vp.checks.c05 import rechunk

PROPERTY = 'C16'
LEVEL = 'exploration'
CASE_TIMEOUT = 300
BATCH_SIZE = {'quick': 1, 'thorough': 1}
REQUIRED_COUNTERS = ['files_validated', 'files_rewritten',
                     'files_needing_no_change', 'rounded_entries_checked',
                     'boundary_values_checked', 'genes_checked',
                     'rejections_checked',
                     'known_symbols_containing_a_dot_checked',
                     'rejections_checked_with_a_log_object']
RULE = ('case block = generated h5ad files: integers stored as floats, '
        'non-integers, negatives, values straddling integer-type boundaries '
        '(254.5, 255.5, 65535.5, -128.5, -129.5, 2^31 +- .5), dense / CSR / '
        'CSC, forced small HDF5 chunks, X or a named layer, obs annotation '
        'columns of several dtypes, gene names mixing Ensembl ids with and '
        'without version suffix, known mouse symbols and unknown names; '
        'rounding on / off; valid_h5ad_path and output_dir; plus the four '
        'rejection classes.  Non-trivial = a file was rewritten or '
        'rejected; distinct = distinct (encoding, layer, rounding, dtype, '
        'gene-class mix, boundary class) tuples')
ASSUMPTIONS = [
    'an explicit mouse GeneIdMapper is passed (species detection is not '
    'part of the property)',
    'integer-valued floats that need no rounding may stay float',
    'an exception other than the four prescribed rejections is not by '
    'itself a violation; such cases are counted',
]

BOUNDARY = [254.5, 255.5, 65535.5, -128.5, -129.5, 127.5, 32767.5,
            -32768.5, 65534.5, 2.0 ** 31 - 0.5, 2.0 ** 31 + 0.5,
            -(2.0 ** 31) - 0.5, 0.5, -0.5, 1.5, 2.5]


def gen_cases(tier, seed):
    rng = np.random.default_rng([seed, 116])
    n = 24 if tier == 'quick' else 960
    return [{'seed': int(rng.integers(2 ** 31)),
             'n_files': 10 if tier == 'quick' else 14} for _ in range(n)]


_SYMS = {}


def known_symbols():
    if not _SYMS:
        from cell_type_mapper.data.mouse_gene_id_lookup import (
            mouse_gene_id_lookup)
        from cell_type_mapper.gene_id.utils import is_ensembl
        keys = [k for k in list(mouse_gene_id_lookup.keys())[:6000]
                if not is_ensembl(k) and '.' not in k]
        _SYMS['keys'] = keys
        # known symbols that themselves contain a dot (Tex19.1, H2-M10.1)
        _SYMS['dotted'] = sorted(
            k for k in mouse_gene_id_lookup.keys()
            if '.' in k and not is_ensembl(k)
            and is_ensembl(mouse_gene_id_lookup[k]))
        _SYMS['lookup'] = mouse_gene_id_lookup
        _SYMS['real_ens'] = sorted({v for v in list(
            mouse_gene_id_lookup.values())[:6000] if is_ensembl(v)})
    return _SYMS['keys'], _SYMS['lookup']


def make_genes(rng, n, klass):
    """returns (names, expected mapped ids or None for placeholder)"""
    keys, lookup = known_symbols()
    names, expect = [], []
    used_targets = set()
    for j in range(n):
        if klass == 'all-ensembl':
            kind = 'ens'
        elif klass == 'ensembl-with-suffix':
            kind = 'ens' if rng.random() < 0.5 else 'enssuf'
        else:
            kind = str(rng.choice(['ens', 'enssuf', 'sym', 'unk']))
        for _ in range(50):
            if kind == 'ens':
                nm = f'ENSMUSG{int(rng.integers(10 ** 6, 10 ** 8)):011d}'
                if rng.random() < 0.5:
                    # an identifier the shipped mouse table knows
                    nm = _SYMS['real_ens'][int(rng.integers(
                        len(_SYMS['real_ens'])))]
                tgt = nm
            elif kind == 'enssuf':
                base = f'ENSMUSG{int(rng.integers(10 ** 6, 10 ** 8)):011d}'
                nm = f'{base}.{int(rng.integers(1, 20))}'
                tgt = base
            elif kind == 'sym':
                nm = keys[int(rng.integers(len(keys)))]
                if rng.random() < 0.25 and _SYMS['dotted']:
                    nm = _SYMS['dotted'][int(rng.integers(
                        len(_SYMS['dotted'])))]
                tgt = lookup[nm].split('.')[0]
            else:
                nm = f'mystery_gene_{int(rng.integers(10 ** 6))}'
                tgt = None
            if nm in names or (tgt is not None and tgt in used_targets):
                continue
            break
        names.append(nm)
        expect.append(tgt)
        if tgt is not None:
            used_targets.add(tgt)
    if all(e is None for e in expect):
        names[0] = 'ENSMUSG00000000001'
        expect[0] = 'ENSMUSG00000000001'
    return names, expect


def make_matrix(rng, n, m, klass, dtype):
    if klass == 'integers':
        X = np.floor(rng.uniform(0, 300, size=(n, m)))
    elif klass == 'non-integers':
        X = rng.uniform(0, 300, size=(n, m))
    elif klass == 'negatives':
        X = rng.uniform(-200, 200, size=(n, m))
    else:   # boundary
        X = np.floor(rng.uniform(0, 100, size=(n, m)))
        k = int(rng.integers(1, 4))
        for _ in range(k):
            b = BOUNDARY[int(rng.integers(len(BOUNDARY)))]
            if dtype == 'float32' and abs(b) > 2 ** 23:
                b = 65535.5
            X[int(rng.integers(n)), int(rng.integers(m))] = b
    X[rng.random(X.shape) < 0.35] = 0
    return X.astype(dtype)


class Ctx(object):
    def __init__(self):
        self.viol = []
        self.counters = {}
        self.features = set()

    def bump(self, k, n=1):
        self.counters[k] = self.counters.get(k, 0) + n

    def V(self, sig, msg):
        if len(self.viol) < 8:
            self.viol.append({'sig': sig, 'msg': msg[:1500]})


def write_input(path, X, cells, genes, enc, layer, obs_cols, layout, rng):
    if enc == 'dense':
        mat = X
    elif enc == 'csr':
        mat = scipy.sparse.csr_matrix(X)
    else:
        mat = scipy.sparse.csc_matrix(X)
    obs = pd.DataFrame(obs_cols, index=pd.Index(cells))
    var = pd.DataFrame(index=pd.Index(genes))
    if layer is None:
        a = anndata.AnnData(X=mat, obs=obs, var=var)
    else:
        other = np.ones(X.shape, dtype=np.float32)
        a = anndata.AnnData(X=other, obs=obs, var=var,
                            layers={layer: mat})
    import warnings
    with warnings.catch_warnings():
        warnings.simplefilter('ignore')
        a.write_h5ad(path)
    if layout is not None:
        rechunk(path, 'X' if layer is None else f'layers/{layer}', layout,
                rng)


def check_one(ctx, rng, work, idx):
    from cell_type_mapper.validation.validate_h5ad import validate_h5ad
    from cell_type_mapper.gene_id.gene_id_mapper import GeneIdMapper
    n = int(rng.integers(2, 25))
    m = int(rng.integers(2, 15))
    enc = str(rng.choice(['dense', 'csr', 'csc']))
    layer = None if rng.random() < 0.6 else 'counts'
    xk = str(rng.choice(['integers', 'non-integers', 'negatives',
                         'boundary', 'boundary', 'boundary']))
    dtype = str(rng.choice(['float32', 'float64', 'float64']))
    gk = str(rng.choice(['all-ensembl', 'ensembl-with-suffix', 'mixed',
                         'mixed']))
    round_to_int = bool(rng.random() < 0.7)
    layout = None if rng.random() < 0.4 else int(rng.choice([1, 2, 5, 16]))
    if rng.random() < 0.12:
        layout = 'oversize'
    use_output_dir = bool(rng.random() < 0.4)
    X = make_matrix(rng, n, m, xk, dtype)
    genes, expect = make_genes(rng, m, gk)
    cells = [f'cell_{i}_{int(rng.integers(1000))}' for i in range(n)]
    obs_cols = {
        'label': [str(rng.choice(['a', 'b', 'c'])) for _ in range(n)],
        'count': [int(x) for x in rng.integers(0, 100, size=n)],
        'score': [float(x) for x in rng.uniform(0, 1, size=n)],
        'flag': [bool(x) for x in rng.random(n) < 0.5],
        'cat': pd.Categorical([str(rng.choice(['x', 'y']))
                               for _ in range(n)]),
    }
    src = work / f'in_{idx}.h5ad'
    write_input(src, X, cells, genes, enc, layer, obs_cols, layout, rng)
    digest = fsmon.file_digest(src)
    scratch = work / f'scratch_{idx}'
    scratch.mkdir()
    outd = work / f'out_{idx}'
    outd.mkdir()
    dest = outd / 'valid.h5ad'
    if rng.random() < 0.3 and not use_output_dir:
        dest.write_bytes(b'pre-existing file at the destination')
    what = (f'n={n} m={m} enc={enc} layer={layer} x={xk} dtype={dtype} '
            f'genes={gk} round={round_to_int} hdf5_chunk={layout} '
            f'output_dir={use_output_dir}')
    ctx.features.add((enc, layer is not None, round_to_int, dtype, gk, xk))
    import contextlib
    import io
    import warnings
    keys, lookup = known_symbols()
    known = set(keys) | set(_SYMS['real_ens'])
    infer = bool(rng.random() < 0.35) and any(
        g.split('.')[0] in known or g in known for g in genes)
    if infer:
        ctx.bump('species_inferred_runs')
    try:
        with warnings.catch_warnings(), \
                contextlib.redirect_stdout(io.StringIO()):
            warnings.simplefilter('ignore')
            res = validate_h5ad(
                h5ad_path=src,
                gene_id_mapper=(None if infer
                                else GeneIdMapper.from_mouse()),
                tmp_dir=str(scratch), layer='X' if layer is None else layer,
                round_to_int=round_to_int,
                output_dir=str(outd) if use_output_dir else None,
                valid_h5ad_path=None if use_output_dir else str(dest))
    except Exception:
        tb = traceback.format_exc()
        sig, last = oracles.exception_signature(tb)
        ctx.bump('validation_raised')
        ctx.V(f'C16:unexpected-exception:{sig}', f'{last}; {what}')
        return
    ctx.bump('files_validated')
    if fsmon.file_digest(src) != digest:
        ctx.V('C16:input-modified', what)
    if list(scratch.iterdir()):
        ctx.V('C16:scratch-left-behind',
              f'{[p.name for p in scratch.iterdir()]}; {what}')
    out_path = res[0] if isinstance(res, tuple) else res
    nonint = bool(np.any(X != np.round(X)))
    needs_ids = any(e != g for e, g in zip(expect, genes))
    needs_change = (layer is not None) or needs_ids or \
        (round_to_int and nonint)
    if out_path is None:
        ctx.bump('files_needing_no_change')
        if needs_change:
            ctx.V('C16:no-file-although-change-needed',
                  f'layer={layer} ids={needs_ids} nonint={nonint}; {what}')
        left = [p.name for p in outd.iterdir()]
        if left:
            ctx.V('C16:file-written-although-no-change',
                  f'{left}; {what}')
        return
    out_path = pathlib.Path(out_path)
    if not needs_change:
        ctx.V('C16:file-written-although-no-change',
              f'{out_path.name}; {what}')
    if not out_path.exists():
        ctx.V('C16:returned-path-missing', f'{out_path}; {what}')
        return
    if use_output_dir:
        if out_path.parent != outd or '_VALIDATED_' not in out_path.name:
            ctx.V('C16:output-dir-naming', f'{out_path}; {what}')
    elif out_path != dest:
        ctx.V('C16:wrong-destination', f'{out_path} vs {dest}; {what}')
    ctx.bump('files_rewritten')
    import warnings
    with warnings.catch_warnings():
        warnings.simplefilter('ignore')
        a = anndata.read_h5ad(out_path)
    # cells and annotations
    if list(a.obs.index) != cells:
        ctx.V('C16:cells-changed', what)
        return
    if list(a.obs.columns) != list(obs_cols.keys()):
        ctx.V('C16:obs-columns-changed',
              f'{list(a.obs.columns)}; {what}')
    else:
        for k, v in obs_cols.items():
            got = [str(x) for x in a.obs[k].tolist()]
            want = [str(x) for x in list(v)]
            if got != want:
                ctx.V('C16:obs-values-changed', f'column {k}; {what}')
                break
    # genes
    got_ids = list(a.var.index)
    if len(got_ids) != m:
        ctx.V('C16:gene-count-changed', f'{len(got_ids)} vs {m}; {what}')
        return
    placeholders = []
    for j, (g, e, o) in enumerate(zip(got_ids, expect, genes)):
        ctx.bump('genes_checked')
        if e is not None and '.' in o and not o.startswith('ENS'):
            ctx.bump('known_symbols_containing_a_dot_checked')
        if e is not None:
            if g != e:
                ctx.V('C16:gene-id-mapping',
                      f'gene {o!r} became {g!r}, expected {e!r}; {what}')
                break
        else:
            placeholders.append(g)
            if g == o or g.startswith('ENS'):
                ctx.V('C16:unknown-gene-not-placeholder',
                      f'{o!r} -> {g!r}; {what}')
                break
    if len(set(got_ids)) != len(got_ids):
        ctx.V('C16:output-gene-ids-not-unique', what)
    uns = a.uns
    want_map = {o: g for o, g in zip(genes, got_ids) if o != g}
    got_map = dict(uns.get('AIBS_CDM_gene_mapping', {})) \
        if 'AIBS_CDM_gene_mapping' in uns else {}
    if needs_ids or got_map:
        if {str(k): str(v) for k, v in got_map.items()} != want_map:
            ctx.V('C16:recorded-gene-mapping',
                  f'uns mapping {str(got_map)[:300]} vs applied renaming '
                  f'{str(want_map)[:300]}; {what}')
    n_unmapped = sum(1 for e in expect if e is None)
    if 'AIBS_CDM_n_mapped_genes' not in uns:
        ctx.V('C16:n-mapped-genes-missing', what)
    elif int(uns['AIBS_CDM_n_mapped_genes']) != m - n_unmapped:
        ctx.V('C16:n-mapped-genes',
              f'{uns["AIBS_CDM_n_mapped_genes"]} vs {m - n_unmapped}; '
              f'{what}')
    # X
    Xo = a.X
    if scipy.sparse.issparse(Xo):
        Xo = Xo.toarray()
    Xo = np.asarray(Xo)
    if Xo.shape != X.shape:
        ctx.V('C16:x-shape', f'{Xo.shape}; {what}')
        return
    if round_to_int and nonint:
        ctx.bump('rounded_entries_checked', X.size)
        Xf = Xo.astype(np.float64)
        if np.any(Xf != np.round(Xf)):
            ctx.V('C16:not-integral', what)
        delta = np.abs(Xf - X.astype(np.float64))
        if np.any(delta > 0.5 + 1e-9):
            i, j = np.unravel_index(np.argmax(delta), delta.shape)
            ctx.V('C16:moved-more-than-half',
                  f'X[{i},{j}]={X[i, j]!r} became {Xo[i, j]!r} '
                  f'(dtype {Xo.dtype}); {what}')
        if not np.issubdtype(Xo.dtype, np.integer):
            ctx.V('C16:not-integer-dtype', f'{Xo.dtype}; {what}')
        if xk == 'boundary':
            ctx.bump('boundary_values_checked')
    else:
        if not np.array_equal(Xo, X) or Xo.dtype != X.dtype:
            ctx.V('C16:x-changed-without-rounding',
                  f'dtype {Xo.dtype} vs {X.dtype}; {what}')


def check_rejections(ctx, rng, work):
    from cell_type_mapper.validation.validate_h5ad import validate_h5ad
    from cell_type_mapper.gene_id.gene_id_mapper import GeneIdMapper
    import contextlib
    import io
    import warnings
    classes = ['duplicate-cell-id', 'duplicate-gene-name',
               'empty-gene-name', 'two-genes-one-identifier']
    for k, klass in enumerate(classes):
        n, m = 6, 5
        X = np.floor(rng.uniform(0, 50, size=(n, m))) + 0.5
        cells = [f'c{i}' for i in range(n)]
        genes = [f'ENSMUSG{i + 1:011d}' for i in range(m)]
        if klass == 'duplicate-cell-id':
            cells[3] = cells[1]
        elif klass == 'duplicate-gene-name':
            genes[2] = genes[0]
        elif klass == 'empty-gene-name':
            genes[4] = ''
        else:
            which = int(rng.integers(0, 2))
            if which == 0:
                genes[3] = genes[1] + '.7'
            else:
                keys, lookup = known_symbols()
                sym = keys[int(rng.integers(len(keys)))]
                genes[1] = sym
                genes[3] = lookup[sym].split('.')[0]
        src = work / f'rej_{k}.h5ad'
        enc = str(rng.choice(['dense', 'csr', 'csc']))
        with warnings.catch_warnings():
            warnings.simplefilter('ignore')
            try:
                write_input(src, X, cells, genes, enc, None,
                            {'a': list(range(n))}, None, rng)
            except Exception:
                ctx.bump('rejection_inputs_unwritable')
                continue
        dest = work / f'rej_out_{k}.h5ad'
        scratch = work / f'rej_scratch_{k}'
        scratch.mkdir()
        digest = fsmon.file_digest(src)
        raised = False
        # with and without a log object (the command line tools always
        # pass one; messages then go through the log instead of raise)
        with_log = bool((k + int(rng.integers(2))) % 2)
        kw = {}
        if with_log:
            from cell_type_mapper.cli.cli_log import CommandLog
            kw['log'] = CommandLog()
            ctx.bump('rejections_checked_with_a_log_object')
        try:
            with warnings.catch_warnings(), \
                    contextlib.redirect_stdout(io.StringIO()):
                warnings.simplefilter('ignore')
                validate_h5ad(h5ad_path=src,
                              gene_id_mapper=GeneIdMapper.from_mouse(),
                              tmp_dir=str(scratch), layer='X',
                              round_to_int=True,
                              valid_h5ad_path=str(dest), **kw)
        except Exception:
            raised = True
        ctx.bump('rejections_checked')
        ctx.features.add(('rejection', klass))
        if not raised:
            ctx.V(f'C16:not-rejected[{klass}]',
                  f'cells={cells} genes={genes} encoding={enc} '
                  f'log_object={with_log}')
        elif dest.exists():
            ctx.V(f'C16:rejected-but-file-written[{klass}]', klass)
        if fsmon.file_digest(src) != digest:
            ctx.V('C16:input-modified', f'rejection class {klass}')
        if list(scratch.iterdir()):
            ctx.V('C16:scratch-left-behind',
                  f'after rejecting {klass}: '
                  f'{[p.name for p in scratch.iterdir()]}')


def run_case(spec, work):
    rng = np.random.default_rng(spec['seed'])
    ctx = Ctx()
    for i in range(spec['n_files']):
        check_one(ctx, rng, work, i)
        if len(ctx.viol) >= 8:
            break
    check_rejections(ctx, rng, work)
    feats = sorted(ctx.features, key=str)
    return {'violations': ctx.viol, 'counters': ctx.counters,
            'features': [str(f) for f in feats[:10]],
            'distinct_list': [str(f) for f in feats],
            'nontrivial': ctx.counters.get('files_rewritten', 0) > 0,
            'sample': {'example': str(feats[0]) if feats else None}}


def distinct_count(results):
    s = set()
    for r in results:
        for f in r.get('distinct_list') or []:
            s.add(f)
    return len(s)
