"""
C09 - reference statistics equal direct computation and are additive.
Reference-model monitor: the real statistics writers run on labelled
matrices kept in memory; every dataset of the written file is compared with
an independent computation (exact integer arithmetic for the CPM thresholds),
across partitions into files / chunks / workers / encodings, after
truncation to every coarser hierarchy and after merging per-dataset files.
"""
import contextlib
import io
import itertools
import shutil
import json
import traceback

import h5py
import numpy as np

from vp import gen, mapworld, oracles

PROPERTY = 'C09'
LEVEL = 'exploration'
CASE_TIMEOUT = 300
BATCH_SIZE = {'quick': 2, 'thorough': 6}
REQUIRED_COUNTERS = ['stats_files_checked', 'cluster_gene_cells_checked',
                     'partition_pairs_compared', 'truncations_checked',
                     'two_step_truncations', 'truncations_from_permuted_rows',
                     'file_lists_sharing_a_base_name',
                     'runs_with_copy_data_over',
                     'same_named_files_copied_to_scratch',
                     'merges_checked', 'boundary_cpm_equal_one_entries',
                     'unlabelled_cells',
                     'csc_references_with_over_65536_genes']
RULE = ('case = labelled reference matrix (clusters of one cell, unlabelled '
        'cells, cells of a cluster scattered over files and chunks, entries '
        'with CPM exactly 1) x ~4 (quick) / ~8 (thorough) partitions: entry '
        'point (label columns / tree with row indices / file list with cell '
        'names), 1-4 files, rows_at_a_time 1..n+1, 1-5 workers, raw or '
        'normalised, dense / CSR / CSC (one forced case: few cells x > 65 536 '
        'genes in each encoding); then every order-preserving proper '
        'sub-hierarchy (truncation) and a merge of per-dataset files.  '
        'Non-trivial = >= 2 clusters with cells; distinct = distinct '
        '(shape, n clusters, normalisation, hierarchy depth) tuples')
ASSUMPTIONS = [
    'thresholds: gt0 / gt1 / ge1 decided in exact integer arithmetic for '
    'raw input; entries within 2e-6 (float64) of 1 CPM are don\'t-care for '
    'gt1, entries in (1-2e-6, 1) for ge1; CPM == 1 exactly must be counted '
    'by ge1',
    'sums compared within 1e-9 relative (float64 / integer input) or 2e-5 '
    '(float32)',
]


def gen_cases(tier, seed):
    rng = np.random.default_rng([seed, 109])
    n = 20 if tier == 'quick' else 800
    cases = []
    if tier == 'thorough':
        # clusters beyond 65 535 cells (16-bit counters)
        for _ in range(2):
            cases.append({'seed': int(rng.integers(2 ** 31)),
                          'n_partitions': 3, 'raw': True,
                          'x_dtype': 'int32', 'big': 'huge'})
    # few cells, more than 65 536 genes (16-bit column indices), stored
    # values in the genes beyond 65 535; CSC / CSR / dense in turn
    for _ in range(1 if tier == 'quick' else 4):
        cases.append({'seed': int(rng.integers(2 ** 31)),
                      'n_partitions': 3, 'raw': False,
                      'x_dtype': 'float64', 'big': 'wide'})
    for i in range(n):
        cases.append({'seed': int(rng.integers(2 ** 31)),
                      'n_partitions': 4 if tier == 'quick' else 8,
                      'raw': bool(i % 3 != 0),
                      'big': bool(i % 5 == 4),
                      'x_dtype': ['float64', 'int32', 'float32', 'int64',
                                  'float64'][i % 5]})
        if i % 7 == 6:
            # raw counts stored in a narrow integer type
            cases[-1]['raw'] = True
            cases[-1]['big'] = False
            cases[-1]['x_dtype'] = ['uint16', 'uint8', 'int16'][(i // 7) % 3]
    return cases


def make_dataset(rng, raw, x_dtype, big=False):
    d = int(rng.integers(1, 5))
    k = int(rng.integers(1, 9))
    if big:
        # clusters with several hundred cells scattered over chunks and
        # workers: per-worker counters must not be narrower than the total
        d = int(rng.integers(1, 3))
        k = int(rng.integers(1, 4))
    forest = gen.random_forest(rng, d, k)
    model = gen.build_from_shape(forest, d, rng,
                                 level_pool=['lvA', 'lvB', 'lvC', 'lvD'],
                                 share_names=False)
    n_genes = int(rng.integers(2, 20))
    n_cells = int(rng.integers(max(2, k), 70))
    if big:
        n_genes = int(rng.integers(2, 5))
        n_cells = int(rng.integers(300, 1100))
    if big == 'huge':
        n_genes = 2
        n_cells = int(rng.integers(95000, 105000))
    if big == 'wide':
        n_genes = 65536 + int(rng.integers(3, 300))
        n_cells = int(rng.integers(max(3, k), 11))
    genes = gen.gene_names(rng, n_genes)
    # labels: every leaf at least one cell when possible; some unlabelled
    leaves = model.leaves
    labels = []
    for i in range(n_cells):
        if i < len(leaves):
            labels.append(leaves[i])
        elif rng.random() < 0.15:
            labels.append(None)
        elif big and rng.random() < 0.8:
            labels.append(leaves[0])
        else:
            labels.append(leaves[int(rng.integers(len(leaves)))])
    order = rng.permutation(n_cells)
    labels = [labels[i] for i in order]
    narrow = x_dtype in ('uint16', 'int16', 'uint8', 'int8')
    if raw and narrow:
        # every entry fits the stored type, most cell totals do not
        hi = int(np.iinfo(np.dtype(x_dtype)).max)
        if n_genes < 3:
            n_genes = 3
            genes = gen.gene_names(rng, n_genes)
        X = np.floor(rng.uniform(0, hi + 1, size=(n_cells, n_genes)))
        X[rng.random(X.shape) < 0.3] = 0
    elif raw:
        X = np.floor(rng.uniform(0, 400, size=(n_cells, n_genes)))
        X[rng.random(X.shape) < 0.4] = 0
        # boundary cells: total exactly 1e6 x m, one gene with count m
        for i in range(n_cells):
            if narrow:
                break
            if n_genes >= 2 and rng.random() < 0.25:
                m = int(rng.integers(1, 4))
                row = np.zeros(n_genes)
                j = int(rng.integers(n_genes))
                row[j] = m
                rest = 1000000 * m - m
                j2 = (j + 1) % n_genes
                row[j2] = rest
                if n_genes >= 3 and rng.random() < 0.5:
                    j3 = (j + 2) % n_genes
                    row[j3] = 2 * m
                    row[j2] = rest - 2 * m
                X[i] = row
    elif big == 'wide':
        X = np.zeros((n_cells, n_genes))
        for i in range(n_cells):
            js = rng.integers(0, n_genes, size=30)
            X[i, js] = rng.uniform(0.5, 12, size=30)
            X[i, int(rng.integers(65536, n_genes))] = 3.0 + i
            X[i, n_genes - 1] = 1.0
    else:
        X = rng.uniform(0, 12, size=(n_cells, n_genes))
        X[rng.random(X.shape) < 0.4] = 0
        X[rng.random(X.shape) < 0.1] = 1.0       # log2(1+1) exactly
        X[rng.random(X.shape) < 0.03] = 1.0 - 5e-7
    if (x_dtype.startswith('int') or x_dtype.startswith('uint')) \
            and not raw:
        x_dtype = 'float64'
    X = X.astype(x_dtype)
    cells = [f'cell{i}' for i in range(n_cells)]
    return model, genes, cells, labels, X


def oracle_stats(X, raw, labels, leaf_list, is32):
    """independent per-leaf statistics; returns dict leaf -> stats"""
    n_genes = X.shape[1]
    out = {}
    dc = 0
    boundary = 0
    band = 1e-4 if is32 else 2e-6
    for lf in leaf_list:
        rows = [i for i, l in enumerate(labels) if l == lf]
        st = {'n_cells': len(rows),
              'sum': np.zeros(n_genes), 'sumsq': np.zeros(n_genes),
              'gt0': np.zeros(n_genes, dtype=int),
              'gt1': np.zeros(n_genes, dtype=int),
              'ge1': np.zeros(n_genes, dtype=int),
              'gt1_dc': np.zeros(n_genes, dtype=int),
              'ge1_dc': np.zeros(n_genes, dtype=int)}
        for i in rows:
            x = X[i].astype(np.float64)
            if raw:
                tot = int(round(x.sum()))
                denom = tot if tot > 0 else 1
                v = np.log2(1.0 + 1.0e6 * x / denom)
                for j in range(n_genes):
                    xi = int(round(x[j]))
                    a = 1000000 * xi          # exact
                    if xi > 0:
                        st['gt0'][j] += 1
                    cpm = a / denom
                    if abs(cpm - 1.0) <= band and a != denom:
                        st['gt1_dc'][j] += 1
                        st['ge1_dc'][j] += 1
                        continue
                    if a == denom:
                        boundary += 1
                        st['ge1'][j] += 1          # CPM == 1 exactly
                        st['gt1_dc'][j] += 1       # fragile in floats
                        continue
                    if a > denom:
                        st['gt1'][j] += 1
                        st['ge1'][j] += 1
            else:
                v = x
                for j in range(n_genes):
                    if v[j] > 0:
                        st['gt0'][j] += 1
                    if v[j] > 1.0:
                        st['gt1'][j] += 1
                        st['ge1'][j] += 1
                    elif v[j] == 1.0:
                        boundary += 1
                        st['ge1'][j] += 1
                    elif v[j] > 1.0 - 2e-6:
                        st['ge1_dc'][j] += 1
            st['sum'] += v
            st['sumsq'] += v ** 2
        dc += int(st['gt1_dc'].sum() + st['ge1_dc'].sum())
        out[lf] = st
    return out, dc, boundary


def read_stats(path):
    with h5py.File(path, 'r') as f:
        d = {k: f[k][()] for k in ('n_cells', 'sum', 'sumsq', 'gt0', 'gt1',
                                   'ge1')}
        d['cluster_to_row'] = json.loads(f['cluster_to_row'][()].decode())
        d['col_names'] = json.loads(f['col_names'][()].decode())
        d['taxonomy_tree'] = json.loads(f['taxonomy_tree'][()].decode())
    return d


def compare_with_oracle(ctx, tag, got, want, genes, tol, what):
    c2r = got['cluster_to_row']
    if got['col_names'] != list(genes):
        ctx.V(f'C09:{tag}:col-names', f'{got["col_names"]} vs {genes}')
        return
    if set(c2r.keys()) != set(want.keys()):
        ctx.V(f'C09:{tag}:cluster-set',
              f'{sorted(c2r)} vs {sorted(want)}; {what}')
        return
    rows = sorted(c2r.values())
    if rows != list(range(len(rows))):
        ctx.V(f'C09:{tag}:cluster-rows', f'{c2r}')
        return
    for lf, st in want.items():
        r = c2r[lf]
        ctx.bump('cluster_gene_cells_checked', len(genes))
        if int(got['n_cells'][r]) != st['n_cells']:
            ctx.V(f'C09:{tag}:n_cells',
                  f'{lf}: {got["n_cells"][r]} vs {st["n_cells"]}; {what}')
            return
        if not np.array_equal(got['gt0'][r], st['gt0']):
            ctx.V(f'C09:{tag}:gt0',
                  f'{lf}: {got["gt0"][r].tolist()} vs '
                  f'{st["gt0"].tolist()}; {what}')
            return
        for k in ('gt1', 'ge1'):
            lo = st[k]
            hi = st[k] + st[k + '_dc']
            g = got[k][r]
            if np.any(g < lo) or np.any(g > hi):
                ctx.V(f'C09:{tag}:{k}',
                      f'{lf}: {g.tolist()} not within '
                      f'[{lo.tolist()}, {hi.tolist()}]; {what}')
                return
        for k in ('sum', 'sumsq'):
            scale = np.maximum(1.0, np.abs(st[k]))
            if np.any(np.abs(got[k][r] - st[k]) > tol * scale):
                ctx.V(f'C09:{tag}:{k}',
                      f'{lf}: {got[k][r].tolist()[:6]} vs '
                      f'{st[k].tolist()[:6]}; {what}')
                return


def tree_matches_model(ctx, tag, tree_dict, model, cells_of_leaf):
    if tree_dict.get('hierarchy') != model.hierarchy:
        ctx.V(f'C09:{tag}:tree-hierarchy', f'{tree_dict.get("hierarchy")}')
        return
    want = model.to_dict(with_cells=False)
    for lv in model.hierarchy[:-1]:
        got = {k: sorted(v) for k, v in tree_dict[lv].items()}
        exp = {k: sorted(v) for k, v in want[lv].items()}
        if got != exp:
            ctx.V(f'C09:{tag}:tree-structure', f'level {lv}: {got} vs {exp}')
            return
    lf = model.leaf_level
    got = {k: sorted(map(str, v)) for k, v in tree_dict[lf].items()}
    exp = {k: sorted(map(str, v)) for k, v in cells_of_leaf.items()}
    if got != exp:
        ctx.V(f'C09:{tag}:tree-cells', f'{str(got)[:300]} vs '
              f'{str(exp)[:300]}')


class Ctx(object):
    def __init__(self):
        self.viol = []
        self.counters = {}

    def bump(self, k, n=1):
        self.counters[k] = self.counters.get(k, 0) + n

    def V(self, sig, msg):
        if len(self.viol) < 8:
            self.viol.append({'sig': sig, 'msg': msg[:1500]})


def run_case(spec, work):
    from cell_type_mapper.diff_exp import precompute_from_anndata as pfa
    from cell_type_mapper.diff_exp.truncate_precompute import (
        truncate_precomputed_stats_file)
    from cell_type_mapper.diff_exp.precompute_utils import (
        merge_precompute_files)
    from cell_type_mapper.taxonomy.taxonomy_tree import TaxonomyTree
    rng = np.random.default_rng(spec['seed'])
    ctx = Ctx()
    raw = spec['raw']
    model, genes, cells, labels, X = make_dataset(rng, raw, spec['x_dtype'],
                                                  big=spec.get('big', False))
    is32 = str(X.dtype) == 'float32'
    tol = 2e-5 if is32 else 1e-9
    norm = 'raw' if raw else 'log2CPM'
    n_cells = len(cells)
    ctx.bump('unlabelled_cells', sum(1 for l in labels if l is None))
    leaves_with_cells = sorted({l for l in labels if l is not None})
    want_all, dc, boundary = oracle_stats(X, raw, labels, model.leaves, is32)
    ctx.bump('boundary_cpm_equal_one_entries', boundary)
    dontcare = {'threshold_band_entries': dc}
    sink = io.StringIO()
    outputs = []     # (tag, stats dict) over all leaves of the model
    (work / 'tmp').mkdir()
    for pi in range(spec['n_partitions']):
        entry = ['columns', 'rows_tree', 'file_list'][pi % 3]
        enc = str(rng.choice(['dense', 'csr', 'csc']))
        rat = int(rng.choice([1, 2, 3, max(1, n_cells // 2), n_cells,
                              n_cells + 1]))
        if spec.get('big'):
            rat = int(rng.choice([50, 100, 37, n_cells // 3]))
        n_proc = int(rng.integers(1, 6))
        if spec.get('big') == 'huge':
            rat = int(rng.choice([5000, 9000, n_cells // 3]))
            n_proc = int(rng.integers(2, 5))
        wide = spec.get('big') == 'wide'
        if wide:
            enc = ['csc', 'csr', 'dense'][pi % 3]
            rat = int(rng.choice([2, n_cells]))
            if enc == 'csc':
                ctx.bump('csc_references_with_over_65536_genes')
        out = work / f'stats_{pi}.h5'
        what = (f'entry={entry} encoding={enc} rows_at_a_time={rat} '
                f'n_processors={n_proc} cells={n_cells} genes={len(genes)} '
                f'norm={norm} dtype={X.dtype}')
        try:
            with contextlib.redirect_stdout(sink):
                if entry == 'columns':
                    # all cells labelled: unlabelled ones are left out of
                    # the file altogether
                    keep = [i for i, l in enumerate(labels)
                            if l is not None]
                    p = work / 'ref_shared.h5ad'
                    ctx.bump('same_path_rewritten')
                    obs_extra = {
                        lv: [model.ancestor(model.leaf_level, labels[i], lv)
                             for i in keep] for lv in model.hierarchy}
                    mapworld.write_h5ad(p, X[keep], [cells[i] for i in keep],
                                        genes, encoding=enc,
                                        obs_extra=obs_extra)
                    pfa.precompute_summary_stats_from_h5ad(
                        data_path=p, column_hierarchy=list(model.hierarchy),
                        taxonomy_tree=None, output_path=out,
                        rows_at_a_time=rat, normalization=norm,
                        tmp_dir=str(work / 'tmp'), n_processors=n_proc)
                    want = {lf: want_all[lf] for lf in leaves_with_cells}
                    rmodel = restrict(model, leaves_with_cells)
                    cells_of_leaf = {
                        lf: [keep.index(i) for i in keep
                             if labels[i] == lf] for lf in leaves_with_cells}
                elif entry == 'rows_tree':
                    # always the same path, rewritten with the cells in
                    # another row order: a result must not depend on what
                    # an earlier run saw at that path
                    p = work / 'ref_shared.h5ad'
                    ro = rng.permutation(n_cells)
                    mapworld.write_h5ad(p, X[ro], [cells[i] for i in ro],
                                        genes, encoding=enc)
                    ctx.bump('same_path_rewritten')
                    m2 = gen.TaxModel(model.hierarchy, model.nodes,
                                      model.parent)
                    m2.cells = {lf: [j for j, i in enumerate(ro)
                                     if labels[i] == lf]
                                for lf in model.leaves}
                    tree = TaxonomyTree(data=m2.to_dict(with_cells=True))
                    copy_over = bool(rng.random() < 0.5)
                    if copy_over:
                        ctx.bump('runs_with_copy_data_over')
                    what += f' copy_data_over={copy_over}'
                    pfa.precompute_summary_stats_from_h5ad_and_tree(
                        data_path=p, taxonomy_tree=tree, output_path=out,
                        rows_at_a_time=rat, normalization=norm,
                        tmp_dir=str(work / 'tmp'), n_processors=n_proc,
                        copy_data_over=copy_over)
                    want = want_all
                    rmodel = model
                    cells_of_leaf = m2.cells
                else:
                    n_files = int(rng.integers(1, 5))
                    same_names = bool((pi // 3) % 2 == 0)
                    copy_over = bool(rng.random() < 0.5)
                    if same_names:
                        n_files = max(2, n_files)
                        copy_over = bool(spec['seed'] % 2)
                        ctx.bump('file_lists_sharing_a_base_name')
                        if copy_over:
                            ctx.bump('same_named_files_copied_to_scratch')
                    if copy_over:
                        ctx.bump('runs_with_copy_data_over')
                    what += (f' files_share_base_name={same_names} '
                             f'copy_data_over={copy_over}')
                    assign = rng.integers(0, n_files, size=n_cells)
                    paths = []
                    for fi in range(n_files):
                        idx = [i for i in range(n_cells) if assign[i] == fi]
                        if not idx:
                            continue
                        idx = [idx[j] for j in rng.permutation(len(idx))]
                        p = work / f'ref_list_{fi}.h5ad'
                        if same_names:
                            # one directory per file, one base name for all
                            (work / f'donor_{pi}_{fi}').mkdir(exist_ok=True)
                            p = work / f'donor_{pi}_{fi}' / 'expression.h5ad'
                        mapworld.write_h5ad(
                            p, X[idx], [cells[i] for i in idx], genes,
                            encoding=('csc' if wide else
                                      str(rng.choice(['dense', 'csr',
                                                      'csc']))))
                        paths.append(p)
                    m2 = gen.TaxModel(model.hierarchy, model.nodes,
                                      model.parent)
                    m2.cells = {lf: [cells[i] for i, l in enumerate(labels)
                                     if l == lf] for lf in model.leaves}
                    tree = TaxonomyTree(data=m2.to_dict(with_cells=True))
                    pfa.precompute_summary_stats_from_h5ad_list_and_tree(
                        data_path_list=paths, taxonomy_tree=tree,
                        output_path=out, rows_at_a_time=rat,
                        normalization=norm, tmp_dir=str(work / 'tmp'),
                        n_processors=n_proc, copy_data_over=copy_over)
                    want = want_all
                    rmodel = model
                    cells_of_leaf = m2.cells
        except Exception:
            tb = traceback.format_exc()
            sig, last = oracles.exception_signature(tb)
            ctx.V(f'C09:stats-raises[{entry}]:{sig}', f'{last}; {what}')
            continue
        got = read_stats(out)
        ctx.bump('stats_files_checked')
        compare_with_oracle(ctx, entry, got, want, genes, tol, what)
        tree_matches_model(ctx, entry, got['taxonomy_tree'], rmodel,
                           cells_of_leaf)
        outputs.append((what, got, entry))
        left = [p.name for p in (work / 'tmp').iterdir()]
        if left:
            ctx.V('C09:scratch-left-behind', f'{left}; {what}')
    # across partitions: counts bitwise equal, sums to rounding
    for (wa, a, ea), (wb, b, eb) in itertools.combinations(outputs, 2):
        ctx.bump('partition_pairs_compared')
        common = set(a['cluster_to_row']) & set(b['cluster_to_row'])
        for lf in common:
            ra, rb = a['cluster_to_row'][lf], b['cluster_to_row'][lf]
            for k in ('n_cells', 'gt0', 'gt1', 'ge1'):
                if not np.array_equal(a[k][ra], b[k][rb]):
                    ctx.V('C09:partition-dependent-counts',
                          f'{k} of {lf}: [{wa}] vs [{wb}]')
                    break
            for k in ('sum', 'sumsq'):
                scale = np.maximum(1.0, np.abs(a[k][ra]))
                if np.any(np.abs(a[k][ra] - b[k][rb]) > tol * scale):
                    ctx.V('C09:partition-dependent-sums',
                          f'{k} of {lf}: [{wa}] vs [{wb}]')
                    break
    # truncation to every order-preserving proper sub-hierarchy, from the
    # file as written, from a copy whose rows were permuted (the file's own
    # cluster-to-row table is the only legitimate way to address a row), and
    # in two steps (the output of a truncation is itself truncated)
    full = [o for o in outputs if o[2] != 'columns']

    def check_trunc(src, out, new_h, what, tag='truncate'):
        if out.exists():
            out.unlink()
        try:
            truncate_precomputed_stats_file(
                input_path=src, output_path=out, new_hierarchy=new_h)
        except Exception:
            tb = traceback.format_exc()
            sig, last = oracles.exception_signature(tb)
            ctx.V(f'C09:{tag}-raises:{sig}', f'{last}; {what}')
            return False
        got = read_stats(out)
        ctx.bump('truncations_checked')
        new_leaf = new_h[-1]
        lab2 = [None if l is None else
                model.ancestor(model.leaf_level, l, new_leaf)
                for l in labels]
        want2, _, _ = oracle_stats(X, raw, lab2,
                                   model.nodes[new_leaf], is32)
        compare_with_oracle(ctx, tag, got, want2, genes, tol, what)
        if got['taxonomy_tree'].get('hierarchy') != new_h:
            ctx.V(f'C09:{tag}:tree-hierarchy',
                  f'{got["taxonomy_tree"].get("hierarchy")}; {what}')
        else:
            # structure of the truncated tree
            for a_lv, b_lv in zip(new_h[:-1], new_h[1:]):
                for node, kids in got['taxonomy_tree'][a_lv].items():
                    exp = [c for c in model.nodes[b_lv]
                           if model.ancestor(b_lv, c, a_lv) == node]
                    if sorted(kids) != sorted(exp):
                        ctx.V(f'C09:{tag}:tree-structure',
                              f'{a_lv}/{node}: {kids} vs {exp}; '
                              f'{what}')
        return True

    if full and len(model.hierarchy) > 1:
        src_idx = [i for i, o in enumerate(outputs) if o[2] != 'columns'][0]
        src_path = work / f'stats_{src_idx}.h5'
        # the same file with its rows in another order
        perm_path = work / 'stats_permuted_rows.h5'
        shutil.copy(src_path, perm_path)
        with h5py.File(perm_path, 'a') as f:
            c2r = json.loads(f['cluster_to_row'][()].decode())
            n_rows = f['n_cells'].shape[0]
            p = rng.permutation(n_rows)      # new row i holds old row p[i]
            inv = np.argsort(p)
            for k in ('n_cells', 'sum', 'sumsq', 'gt0', 'gt1', 'ge1'):
                f[k][...] = f[k][()][p]
            del f['cluster_to_row']
            f.create_dataset(
                'cluster_to_row',
                data=json.dumps({c: int(inv[r])
                                 for c, r in c2r.items()}).encode('utf-8'))
        h = model.hierarchy
        for r in range(1, len(h)):
            for sub in itertools.combinations(range(len(h)), r):
                new_h = [h[i] for i in sub]
                tp = work / 'trunc.h5'
                ok = check_trunc(src_path, tp, new_h,
                                 f'truncate {h} -> {new_h}')
                check_trunc(perm_path, work / 'trunc_p.h5', new_h,
                            f'truncate {h} -> {new_h} from a file whose '
                            f'rows were permuted', tag='truncate-permuted')
                ctx.bump('truncations_from_permuted_rows')
                if ok and len(new_h) > 1:
                    # second step: every proper sub-hierarchy of new_h
                    for r2 in range(1, len(new_h)):
                        for sub2 in itertools.combinations(
                                range(len(new_h)), r2):
                            h2 = [new_h[i] for i in sub2]
                            check_trunc(
                                tp, work / 'trunc2.h5', h2,
                                f'truncate {h} -> {new_h} -> {h2}',
                                tag='truncate-twice')
                            ctx.bump('two_step_truncations')
    # merge per-dataset files
    try:
        n_sets = int(rng.integers(2, 4))
        m2 = gen.TaxModel(model.hierarchy, model.nodes, model.parent)
        m2.cells = {lf: [cells[i] for i, l in enumerate(labels) if l == lf]
                    for lf in model.leaves}
        tree = TaxonomyTree(data=m2.to_dict(with_cells=True))
        paths = []
        per = []
        for si in range(n_sets):
            idx = [i for i in range(n_cells) if rng.random() < 0.6]
            if not idx:
                idx = [0]
            unl = [i for i, l in enumerate(labels) if l is None]
            if si == 1 and unl and rng.random() < 0.5:
                # a dataset none of whose cells is named by the taxonomy
                idx = unl
                ctx.bump('datasets_without_labelled_cells')
            p = work / f'ds_{si}.h5ad'
            mapworld.write_h5ad(p, X[idx], [cells[i] for i in idx], genes,
                                encoding='csr')
            sp = work / f'ds_stats_{si}.h5'
            with contextlib.redirect_stdout(sink):
                pfa.precompute_summary_stats_from_h5ad_list_and_tree(
                    data_path_list=[p], taxonomy_tree=tree, output_path=sp,
                    rows_at_a_time=int(rng.integers(1, n_cells + 2)),
                    normalization=norm, tmp_dir=str(work / 'tmp'),
                    n_processors=int(rng.integers(1, 4)))
            paths.append(str(sp))
            per.append(read_stats(sp))
        mp = work / 'merged.h5'
        merge_precompute_files(precompute_path_list=list(paths),
                               output_path=mp)
        got = read_stats(mp)
        ctx.bump('merges_checked')
        for lf in model.leaves:
            r = got['cluster_to_row'][lf]
            best = max(int(d['n_cells'][d['cluster_to_row'][lf]])
                       for d in per)
            if int(got['n_cells'][r]) != best:
                ctx.V('C09:merge:n_cells',
                      f'{lf}: merged {got["n_cells"][r]}, datasets have '
                      f'{[int(d["n_cells"][d["cluster_to_row"][lf]]) for d in per]}')
                break
            ok = False
            for d in per:
                rd = d['cluster_to_row'][lf]
                if int(d['n_cells'][rd]) == best and all(
                        np.array_equal(got[k][r], d[k][rd])
                        for k in ('sum', 'sumsq', 'gt0', 'gt1', 'ge1')):
                    ok = True
            if not ok:
                ctx.V('C09:merge:row-not-from-largest-dataset',
                      f'{lf}: merged row does not equal the row of any '
                      f'dataset with {best} cells')
                break
    except Exception:
        tb = traceback.format_exc()
        sig, last = oracles.exception_signature(tb)
        ctx.V(f'C09:merge-raises:{sig}', last)
    ctx.bump('largest_cluster_cells',
             0 if not spec.get('big') else
             max(sum(1 for l in labels if l == lf) for lf in model.leaves))
    feats = (X.shape, len(leaves_with_cells), norm, len(model.hierarchy),
             str(X.dtype))
    return {'violations': ctx.viol, 'counters': ctx.counters,
            'dontcare': dontcare, 'features': str(feats),
            'nontrivial': len(leaves_with_cells) >= 2,
            'sample': {'shape': X.shape, 'hierarchy': model.hierarchy,
                       'clusters_with_cells': len(leaves_with_cells),
                       'normalization': norm}}


def restrict(model, present):
    from vp.checks.c10 import restrict_model
    return restrict_model(model, present)
