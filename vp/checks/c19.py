"""
C19 - runs leave inputs untouched, scratch space empty, and do not interfere.
File-system monitors (snapshots before / after every stage, strace write-set
on a subset), histories over shared scratch and output directories with stale
files planted under every name pattern the stages use, and concurrent pairs.
"""
import json
import os
import pathlib
import shutil
import subprocess
import sys
import tempfile
import traceback

import numpy as np

from vp import fsmon, inject, mapworld, oracles, pipeworld as pw
from vp.checks import c14

PROPERTY = 'C19'
LEVEL = 'exploration'
CASE_TIMEOUT = 600
BATCH_SIZE = {'quick': 1, 'thorough': 1}
REQUIRED_COUNTERS = ['stages_snapshotted', 'failing_mapping_runs_checked',
                     'histories_checked', 'concurrent_pairs_checked',
                     'strace_runs', 'syscalls_inspected',
                     'stale_patterns_planted']
RULE = ('cases: (chain) every stage of the pipeline + validate_h5ad + '
        'mapping run on generated inputs between two recursive snapshots '
        '(sha256) of input / output / scratch / TMPDIR / cwd; (fail) '
        'mapping runs ending in an error - each invalid-input class and '
        'each worker fault point - followed by a listing of scratch, TMPDIR '
        'and cwd; (strace) stages run under strace -f, every path opened '
        'for writing / created / renamed / removed must lie under the '
        'declared outputs or scratch; (history) mapping / statistics / '
        'marker runs in directories holding the leftovers of earlier runs '
        'and stale files under every name pattern, compared bitwise with '
        'the clean-directory result; (pair) two mapping runs sharing '
        'scratch and output directories started together.  Non-trivial = '
        'the monitored run really executed the stage; distinct = distinct '
        '(kind, stage / class) pairs')
ASSUMPTIONS = [
    'allow-list of the write-set monitor: /dev/null, /dev/shm/*, /proc/*, '
    '$TMPDIR/pymp-* (multiprocessing runtime; gone at exit)',
    'the query file may change only when obsm_key is given (not exercised)',
]

STALE_PATTERNS = [
    'result_buffer_stale', 'results_buffer_stale',
    'result_buffer_stale/results_buffer_x/0_3_assignment.json',
    '0_3_assignment.json', 'query_marker_stale.h5', 'file_tracker_stale',
    'file_tracker_stale/query_abc.h5ad', 'anndata_iterator_stale',
    'anndata_iterator_stale/query.h5ad_as_csr_x.h5',
    'precomputation_buffer_stale.h5', 'columns_0_8_stale.h5',
    'unthinned_stale.h5', 'transpose_0_6_stale.h5', 'transposed_stale.h5',
    'transpositionstale', 'cell_type_mapper_20200101000000_stale',
    'find_markers_stale', 'src_stale.h5', 'dst_stale.h5',
    'transposing_sparse_matrix_stale', 'precomputation_data_buffer_stale',
]

FAIL_CLASSES = ['missing-query', 'corrupt-query', 'non-hdf5-query',
                'missing-markers', 'malformed-markers',
                'marker-unknown-to-reference', 'no-usable-root',
                'negative-raw', 'wrong-normalization', 'corrupt-stats',
                'worker-before', 'worker-mid', 'worker-after',
                'worker-before-slow-siblings', 'worker-mid-slow-siblings',
                'negative-raw/no-scratch', 'marker-unknown-to-reference'
                '/no-scratch', 'worker-mid/no-scratch']


def gen_cases(tier, seed):
    cases = []
    n = 1 if tier == 'quick' else 12
    for k in range(n):
        s = 9000 + 17 * seed + k
        cases.append({'kind': 'chain', 'seed': s})
        for fc in FAIL_CLASSES:
            cases.append({'kind': 'fail', 'fail_class': fc, 'seed': s})
        cases.append({'kind': 'history', 'seed': s})
        cases.append({'kind': 'pair', 'seed': s})
        cases.append({'kind': 'pair', 'seed': s + 1,
                      'pair_class': 'long-and-short'})
        cases.append({'kind': 'pair', 'seed': s + 2,
                      'pair_class': 'long-and-short'})
        cases.append({'kind': 'pair', 'seed': s + 3,
                      'pair_class': 'long-and-short'})
    stages = ['mapping', 'stats'] if tier == 'quick' else \
        list(c14.STAGES.keys())
    for st in stages:
        cases.append({'kind': 'strace', 'stage': st, 'seed': 9500 + seed})
    return cases


class Ctx(object):
    def __init__(self):
        self.viol = []
        self.counters = {}

    def bump(self, k, n=1):
        self.counters[k] = self.counters.get(k, 0) + n

    def V(self, sig, msg):
        if len(self.viol) < 10:
            self.viol.append({'sig': sig, 'msg': msg[:1500]})


def set_tmpdir(path):
    path = pathlib.Path(path)
    path.mkdir(parents=True, exist_ok=True)
    os.environ['TMPDIR'] = str(path)
    tempfile.tempdir = str(path)
    return path


def listing(d):
    d = pathlib.Path(d)
    if not d.exists():
        return []
    return sorted(str(p.relative_to(d)) for p in d.rglob('*'))


# ------------------------------------------------------------------ chain

def monitored(ctx, name, fn, inputs, outputs, watch_dirs, empty_dirs):
    """
    run fn between two snapshots.  inputs: files that must not change;
    outputs: paths (files / dirs) where new entries are allowed;
    empty_dirs: directories that must be empty afterwards.
    """
    before = fsmon.snapshot(watch_dirs)
    in_dig = {str(p): fsmon.file_digest(p) for p in inputs
              if os.path.exists(p)}
    cwd0 = os.getcwd()
    err = None
    try:
        fn()
    except Exception:
        err = traceback.format_exc()
    finally:
        os.chdir(cwd0)
    import gc
    gc.collect()
    after = fsmon.snapshot(watch_dirs)
    ctx.bump('stages_snapshotted')
    for p, dg in in_dig.items():
        if not os.path.exists(p) or fsmon.file_digest(p) != dg:
            ctx.V(f'C19:input-modified[{name}]',
                  f'{p} changed during stage {name}')
    allowed = [str(pathlib.Path(o)) for o in outputs]
    for d, rel, kind in fsmon.diff_snapshots(before, after):
        full = os.path.join(d, rel)
        ok = any(full == a or full.startswith(a + os.sep) for a in allowed)
        if not ok:
            ctx.V(f'C19:unexpected-file-{kind}[{name}]',
                  f'{full} {kind} by stage {name}')
    for d in empty_dirs:
        left = listing(d)
        if left:
            ctx.V(f'C19:scratch-left-behind[{name}]',
                  f'{d} holds {left[:8]} after stage {name} returned')
    return err


def run_chain(spec, work, ctx):
    rng = np.random.default_rng(spec['seed'])
    ind = work / 'in'
    outd = work / 'out'
    scratch = work / 'scratch'
    cwd = work / 'cwd'
    for d in (ind, outd, scratch, cwd):
        d.mkdir()
    tmpd = set_tmpdir(work / 'tmpdir')
    os.chdir(cwd)
    # class 1: (a, b), (c); class 2: (d, e), (f); b = a plus a few genes,
    # so that one parent's only pair has markers in one direction only
    two, one = ((), ()), ((),)
    ref = pw.make_reference(rng, ind, n_levels=3, n_leaves=6, n_genes=24,
                            cells_per_leaf=(8, 12),
                            forest=((two, one), (two, one)),
                            nested_siblings=True,
                            encoding=str(rng.choice(['dense', 'csr', 'csc'])))
    watch = [ind, outd, scratch, tmpd, cwd]
    empties = [scratch, tmpd, cwd]
    stats = outd / 'stats.h5'
    refm = outd / 'refm.h5'
    pmask = outd / 'pmask.h5'
    refm2 = outd / 'refm2.h5'
    lookup = outd / 'lookup.json'
    e = monitored(ctx, 'stats',
                  lambda: pw.run_stats(ref, stats, scratch, n_processors=3,
                                       rows_at_a_time=5),
                  [ref.path], [stats], watch, empties)
    if e:
        return f'stats raised {e[-300:]}'
    # the same reference in the other encodings (CSC goes through the
    # on-disk CSC->CSR conversion in the default temporary directory)
    for enc in ('dense', 'csr', 'csc'):
        rp = ind / f'ref_{enc}.h5ad'
        obs_extra = {lv: [ref.model.ancestor(ref.model.leaf_level, l, lv)
                          for l in ref.labels]
                     for lv in ref.model.hierarchy}
        mapworld.write_h5ad(rp, ref.X, ref.cells, ref.genes, encoding=enc,
                            obs_extra=obs_extra)
        alt = pw.Ref()
        alt.__dict__.update(ref.__dict__)
        alt.path = rp
        so = outd / f'stats_{enc}.h5'
        e = monitored(ctx, f'stats-{enc}',
                      lambda: pw.run_stats(alt, so, scratch, n_processors=2,
                                           rows_at_a_time=6),
                      [rp], [so], watch, empties)
        if e:
            return f'stats ({enc}) raised {e[-300:]}'
    # the statistics stage entered with an explicit tree and the option to
    # work on a scratch copy of the data
    m3 = ref.model
    m3.cells = {lf: [j for j, l in enumerate(ref.labels) if l == lf]
                for lf in m3.leaves}
    tree_dict = m3.to_dict(with_cells=True)
    for cp in (True, False):
        so = outd / f'stats_tree_copy{int(cp)}.h5'
        e = monitored(
            ctx, f'stats-with-tree[copy_data_over={cp}]',
            lambda: pw.run_stats_with_tree(ref, so, scratch, tree_dict,
                                           n_processors=2, rows_at_a_time=9,
                                           copy_data_over=cp),
            [ref.path], [so], watch, empties)
        if e:
            return f'stats with tree raised {e[-300:]}'
    e = monitored(ctx, 'reference-markers',
                  lambda: pw.run_ref_markers(stats, refm, scratch,
                                             n_processors=3),
                  [ref.path, stats], [refm], watch, empties)
    if e:
        return f'reference markers raised {e[-300:]}'
    e = monitored(ctx, 'p-value-mask',
                  lambda: pw.run_p_mask(stats, pmask, scratch,
                                        n_processors=2, n_per=8),
                  [stats], [pmask], watch, empties)
    if e:
        return f'p mask raised {e[-300:]}'
    e = monitored(ctx, 'markers-from-mask',
                  lambda: pw.run_markers_from_p_mask(stats, pmask, refm2,
                                                     scratch,
                                                     n_processors=2),
                  [stats, pmask], [refm2], watch, empties)
    if e:
        return f'markers from mask raised {e[-300:]}'
    # the same stage with its inputs placed where path arithmetic can go
    # wrong: inside the scratch directory, and in a sibling directory whose
    # name merely starts with the scratch directory's name
    for layout in ('inside-scratch', 'prefix-sibling'):
        if layout == 'inside-scratch':
            d = scratch / 'given_inputs'
        else:
            d = work / 'scratch_inputs'
        d.mkdir()
        mask2 = d / 'pmask_copy.h5'
        stats2 = d / 'stats_copy.h5'
        shutil.copy(pmask, mask2)
        shutil.copy(stats, stats2)
        out2 = outd / f'refm_{layout}.h5'
        out3 = outd / f'refm_direct_{layout}.h5'
        out4 = outd / f'pmask_{layout}.h5'
        emp = [tmpd, cwd] if layout == 'inside-scratch' else empties
        e = monitored(ctx, f'markers-from-mask[{layout}]',
                      lambda: pw.run_markers_from_p_mask(
                          stats2, mask2, out2, scratch, n_processors=2),
                      [stats2, mask2], [out2], watch + [d], emp)
        if e:
            return f'markers from mask ({layout}) raised {e[-300:]}'
        e = monitored(ctx, f'reference-markers[{layout}]',
                      lambda: pw.run_ref_markers(stats2, out3, scratch,
                                                 n_processors=2),
                      [stats2, mask2], [out3], watch + [d], emp)
        if e:
            return f'reference markers ({layout}) raised {e[-300:]}'
        e = monitored(ctx, f'p-value-mask[{layout}]',
                      lambda: pw.run_p_mask(stats2, out4, scratch,
                                            n_processors=2, n_per=8),
                      [stats2, mask2], [out4], watch + [d], emp)
        if e:
            return f'p-value mask ({layout}) raised {e[-300:]}'
        left = [x for x in listing(scratch)
                if not x.startswith('given_inputs')]
        if left:
            ctx.V(f'C19:scratch-left-behind[{layout}]', f'{left[:6]}')
        ctx.bump('input_layout_variants')
        shutil.rmtree(d)
    e = monitored(ctx, 'query-markers',
                  lambda: pw.run_query_markers(refm, ref.genes, lookup,
                                               scratch, n_processors=3),
                  [stats, refm], [lookup], watch, empties)
    if e:
        return f'query markers raised {e[-300:]}'
    # validation
    vq = ind / 'to_validate.h5ad'
    X = ref.X[:9] + 0.25
    mapworld.write_h5ad(vq, X, [f'v{i}' for i in range(9)], ref.genes,
                        encoding=str(rng.choice(['dense', 'csr', 'csc'])))
    from cell_type_mapper.validation.validate_h5ad import validate_h5ad

    def val():
        with pw.quiet():
            validate_h5ad(h5ad_path=vq, gene_id_mapper=None,
                          tmp_dir=str(scratch), layer='X',
                          round_to_int=True,
                          valid_h5ad_path=str(outd / 'validated.h5ad'))
    e = monitored(ctx, 'validate_h5ad', val, [vq],
                  [outd / 'validated.h5ad'], watch, empties)
    if e and 'species' not in e and 'Could not find' not in e:
        ctx.counters['validate_raised'] = 1
    # mapping (success)
    q = ind / 'query.h5ad'
    mapworld.write_h5ad(q, ref.X[:12], [f'q{i}' for i in range(12)],
                        ref.genes,
                        encoding=str(rng.choice(['dense', 'csr', 'csc'])))
    mdir = outd / 'map'
    mdir.mkdir()
    cfg = pw.mapping_config(mdir, q, stats, lookup, chunk_size=4,
                            n_processors=3)
    cfg['tmp_dir'] = str(scratch)
    from cell_type_mapper.cli.from_specified_markers import run_mapping

    def do_map():
        with pw.quiet():
            run_mapping(config=cfg,
                        output_path=cfg['extended_result_path'],
                        log_path=cfg['log_path'],
                        hdf5_output_path=cfg['hdf5_result_path'])
    e = monitored(ctx, 'mapping', do_map, [q, stats, lookup], [mdir],
                  watch, empties)
    if e:
        return f'mapping raised {e[-300:]}'
    # mapping without a scratch directory (the schema default): temporary
    # files go to the default temporary directory and must be gone after
    mdir2 = outd / 'map_noscratch'
    mdir2.mkdir()
    cfg2 = pw.mapping_config(mdir2, q, stats, lookup, chunk_size=4,
                             n_processors=3)
    cfg2['tmp_dir'] = None
    cfg2['extended_result_dir'] = str(mdir2 / 'out')
    shutil.rmtree(mdir2 / 'scratch')

    def do_map2():
        with pw.quiet():
            run_mapping(config=cfg2,
                        output_path=cfg2['extended_result_path'],
                        log_path=cfg2['log_path'],
                        hdf5_output_path=cfg2['hdf5_result_path'])
    declared = [cfg2[k] for k in ('extended_result_path', 'csv_result_path',
                                  'hdf5_result_path', 'log_path')]
    e = monitored(ctx, 'mapping-no-scratch-dir', do_map2,
                  [q, stats, lookup], declared, watch, empties)
    if e:
        return f'mapping without scratch raised {e[-300:]}'
    # a blank obsm_key (what an empty field of a configuration template
    # gives) is not a request to store anything: the run succeeds and the
    # query file stays as it is
    mdir4 = outd / 'map_blank_obsm'
    mdir4.mkdir()
    cfg4 = pw.mapping_config(mdir4, q, stats, lookup, chunk_size=4,
                             n_processors=2)
    cfg4['tmp_dir'] = str(scratch)
    cfg4['obsm_key'] = ''

    def do_map4():
        with pw.quiet():
            run_mapping(config=cfg4,
                        output_path=cfg4['extended_result_path'],
                        log_path=cfg4['log_path'],
                        hdf5_output_path=cfg4['hdf5_result_path'])
    e = monitored(ctx, 'mapping-blank-obsm-key', do_map4,
                  [q, stats, lookup], [mdir4], watch, empties)
    if e:
        ctx.V('C19:blank-obsm-key-run-fails',
              f'mapping with obsm_key="" raised {e[-300:]}')
    ctx.bump('blank_obsm_key_runs')
    # storing results in the query file is the one case in which an input
    # may change - and then only its obsm
    q3 = ind / 'query_obsm.h5ad'
    shutil.copy(q, q3)
    before_parts = {k: v for k, v in pw.h5_digest(q3, skip=()).items()
                    if not k.startswith('obsm')}
    mdir3 = outd / 'map_obsm'
    mdir3.mkdir()
    cfg3 = pw.mapping_config(mdir3, q3, stats, lookup, chunk_size=4,
                             n_processors=2)
    cfg3['tmp_dir'] = str(scratch)
    cfg3['obsm_key'] = 'cell_type_mapping'
    cfg3['summary_metadata_path'] = str(mdir3 / 'summary.json')

    def do_map3():
        with pw.quiet():
            run_mapping(config=cfg3,
                        output_path=cfg3['extended_result_path'],
                        log_path=cfg3['log_path'],
                        hdf5_output_path=cfg3['hdf5_result_path'])
    e = monitored(ctx, 'mapping-obsm', do_map3, [stats, lookup],
                  [mdir3, q3], watch, empties)
    if e:
        return f'mapping with obsm_key raised {e[-300:]}'
    after_all = pw.h5_digest(q3, skip=())
    after_parts = {k: v for k, v in after_all.items()
                   if not k.startswith('obsm')}
    if before_parts != after_parts:
        changed = [k for k in before_parts
                   if after_parts.get(k) != before_parts[k]]
        ctx.V('C19:query-changed-outside-obsm',
              f'datasets {changed[:5]} of the query changed when results '
              f'were stored under obsm')
    if not any(k.startswith('obsm/cell_type_mapping') for k in after_all):
        ctx.V('C19:obsm-not-written', 'obsm_key requested but absent')
    ctx.bump('obsm_runs_checked')
    sm = json.loads((mdir3 / 'summary.json').read_text())
    if sm.get('n_mapped_cells') != 12:
        ctx.V('C19:summary-metadata', f'{sm}')
    return None


# ------------------------------------------------------------------- fail

def run_fail(spec, work, ctx):
    rng = np.random.default_rng(spec['seed'])
    fc = spec['fail_class']
    no_scratch = fc.endswith('/no-scratch')
    fc = fc.split('/')[0]
    env = c14.Env(work / 'env', spec['seed'])
    scratch = work / 'scratch'
    outd = work / 'out'
    cwd = work / 'cwd'
    for d in (scratch, outd, cwd):
        d.mkdir()
    tmpd = set_tmpdir(work / 'tmpdir')
    q, stats, lookup = env.query, env.stats, env.lookup
    ta = {}
    plan = None
    if fc == 'missing-query':
        q = work / 'env' / 'nonexistent.h5ad'
    elif fc == 'corrupt-query':
        q = work / 'env' / 'corrupt.h5ad'
        b = env.query.read_bytes()
        q.write_bytes(b[:len(b) // 3])
    elif fc == 'non-hdf5-query':
        q = work / 'env' / 'text.h5ad'
        q.write_text('this is not an HDF5 file\n' * 20)
    elif fc == 'missing-markers':
        lookup = work / 'env' / 'no_markers.json'
    elif fc == 'malformed-markers':
        lookup = work / 'env' / 'bad_markers.json'
        lookup.write_text('{"None": ["a", ')
    elif fc == 'marker-unknown-to-reference':
        lk = json.loads(env.lookup.read_text())
        lk['None'] = list(lk['None']) + ['not_a_reference_gene']
        lookup = work / 'env' / 'unk_markers.json'
        lookup.write_text(json.dumps(lk))
    elif fc == 'no-usable-root':
        lk = json.loads(env.lookup.read_text())
        lk = {k: [] for k in lk}
        lookup = work / 'env' / 'noroot_markers.json'
        lookup.write_text(json.dumps(lk))
    elif fc == 'negative-raw':
        X = env.ref.X[:12].copy()
        X[3, 2] = -2.0
        q = work / 'env' / 'neg.h5ad'
        mapworld.write_h5ad(q, X, [f'q{i}' for i in range(12)],
                            env.ref.genes,
                            encoding=str(rng.choice(['dense', 'csr', 'csc'])))
    elif fc == 'wrong-normalization':
        ta['normalization'] = 'log10CPM'
    elif fc == 'corrupt-stats':
        stats = work / 'env' / 'corrupt_stats.h5'
        b = env.stats.read_bytes()
        stats.write_bytes(b[:len(b) // 2])
    elif fc.startswith('worker-'):
        point = fc.split('-')[1]
        plan = {'log_dir': str(work / 'inj'),
                'fault': {'worker': int(rng.integers(0, 3)),
                          'mode': str(rng.choice(['kill', 'term', 'exit', 'raise'])),
                          'point': point, 'mid_after': 1}}
        if fc.endswith('slow-siblings'):
            # the surviving workers are held right before they write their
            # chunk of results, i.e. until after the parent has raised and
            # cleaned up
            plan['delay_points'] = [[
                'cell_type_mapper.type_assignment.election', 'save_results',
                float(rng.choice([0.4, 0.8])), 'non-victim']]
    cfg = pw.mapping_config(outd, q, stats, lookup, chunk_size=3,
                            n_processors=4, **ta)
    cfg['tmp_dir'] = str(scratch)
    if no_scratch:
        cfg['tmp_dir'] = None
        cfg['extended_result_dir'] = str(outd / 'out')
    in_files = [p for p in (q, stats, lookup) if pathlib.Path(p).exists()]
    in_dig = {str(p): fsmon.file_digest(p) for p in in_files}
    from cell_type_mapper.cli.from_specified_markers import run_mapping
    if plan is not None:
        info = c14.STAGES['mapping']
        inject.install(plan, info['modules'], mid_target=info['mid'])
    os.chdir(cwd)
    err = None
    try:
        with pw.quiet(), mapworld.capture_stderr(work / 'stderr.txt'):
            run_mapping(config=cfg, output_path=cfg['extended_result_path'],
                        log_path=cfg['log_path'],
                        hdf5_output_path=cfg['hdf5_result_path'])
    except Exception:
        err = traceback.format_exc()
    finally:
        os.chdir(work)
        if plan is not None:
            inject.collect()
            inject.uninstall()
    if err is None:
        return f'run of class {fc} did not fail'
    import gc
    gc.collect()
    ctx.bump('failing_mapping_runs_checked')
    ctx.bump('fail_' + spec['fail_class'])
    if no_scratch:
        declared = {pathlib.Path(cfg[k]).name for k in
                    ('extended_result_path', 'csv_result_path',
                     'hdf5_result_path', 'log_path')}
        extra = [p for p in listing(outd / 'out') if p not in declared]
        if extra:
            ctx.V('C19:failed-mapping-leaves-files[no-scratch,output-dir]',
                  f'after a mapping run failing on {fc} without a scratch '
                  f'directory the output directory holds {extra[:6]}')
    for d, nm in ((scratch, 'scratch'), (tmpd, 'TMPDIR'), (cwd, 'cwd')):
        left = listing(d)
        if left:
            kind = 'worker-fault' if fc.startswith('worker-') else \
                'invalid-input'
            ctx.V(f'C19:failed-mapping-leaves-files[{kind},{nm}]',
                  f'after a mapping run failing on {fc}: {nm} holds '
                  f'{left[:6]}')
    for p, dg in in_dig.items():
        if fsmon.file_digest(p) != dg:
            ctx.V('C19:input-modified[failed-mapping]', f'{p} ({fc})')
    return None


# ---------------------------------------------------------------- history

def plant_stale(d, rng):
    d = pathlib.Path(d)
    n = 0
    for pat in STALE_PATTERNS:
        p = d / pat
        if '.' in p.name:
            p.parent.mkdir(parents=True, exist_ok=True)
            if p.suffix == '.json':
                p.write_text(json.dumps([{'cell_id': 'STALE', 'x': 1}]))
            else:
                p.write_bytes(b'stale junk, not HDF5 ' * 3)
        else:
            p.mkdir(parents=True, exist_ok=True)
        n += 1
    return n


def mapping_outputs(cfg):
    js = json.loads(pathlib.Path(cfg['extended_result_path']).read_text())
    return {
        'json': mapworld.strip_volatile(js),
        'csv': pathlib.Path(cfg['csv_result_path']).read_text().split(
            '\n', 1)[1],      # first line names the JSON file
        'hdf5': pw.h5_digest(cfg['hdf5_result_path'], skip=('metadata',)),
    }


def run_history(spec, work, ctx):
    rng = np.random.default_rng(spec['seed'])
    env = c14.Env(work / 'env', spec['seed'])
    set_tmpdir(work / 'tmpdir')
    from cell_type_mapper.cli.from_specified_markers import run_mapping

    def do_map(outd, scratch, tag, query=None, expect_fail=False):
        outd = pathlib.Path(outd)
        outd.mkdir(exist_ok=True)
        cfg = pw.mapping_config(outd, query or env.query, env.stats,
                                env.lookup, chunk_size=4, n_processors=3)
        cfg['tmp_dir'] = str(scratch)
        for k in ('extended_result_path', 'csv_result_path',
                  'hdf5_result_path', 'log_path'):
            p = pathlib.Path(cfg[k])
            cfg[k] = str(p.parent / f'{tag}_{p.name}')
        try:
            with pw.quiet():
                run_mapping(config=cfg,
                            output_path=cfg['extended_result_path'],
                            log_path=cfg['log_path'],
                            hdf5_output_path=cfg['hdf5_result_path'])
        except Exception:
            if not expect_fail:
                raise
            return None
        return mapping_outputs(cfg)

    # clean-directory reference result
    clean_s = work / 'clean_scratch'
    clean_s.mkdir()
    clean = do_map(work / 'clean_out', clean_s, 'r')
    # shared directories with a history
    sh_s = work / 'shared_scratch'
    sh_o = work / 'shared_out'
    sh_s.mkdir()
    sh_o.mkdir()
    a = do_map(sh_o, sh_s, 'r')                       # success
    b = do_map(sh_o, sh_s, 'r')                       # success after success
    bad = work / 'env' / 'neg.h5ad'
    X = env.ref.X[:12].copy()
    X[0, 0] = -1
    mapworld.write_h5ad(bad, X, [f'q{i}' for i in range(12)], env.ref.genes)
    do_map(sh_o, sh_s, 'r', query=bad, expect_fail=True)    # failure
    c = do_map(sh_o, sh_s, 'r')                       # success after failure
    n = plant_stale(sh_s, rng) + plant_stale(sh_o, rng)
    ctx.bump('stale_patterns_planted', n)
    planted = fsmon.snapshot([sh_s])
    d = do_map(sh_o, sh_s, 'r')                       # among stale files
    for name, res in (('success-after-success', b),
                      ('success-after-failure', c),
                      ('stale-files-planted', d), ('first-shared', a)):
        ctx.bump('histories_checked')
        for k in ('json', 'csv', 'hdf5'):
            if res[k] != clean[k]:
                ctx.V(f'C19:history-changes-result[{name}]',
                      f'{k} output differs from the clean-directory run')
                break
    after = fsmon.snapshot([sh_s])
    for dd, rel, kind in fsmon.diff_snapshots(planted, after):
        ctx.V(f'C19:history-scratch-{kind}',
              f'{rel} {kind} in the shared scratch directory')
    # other stages among stale files
    s_clean = work / 'stats_clean.h5'
    s_stale = work / 'stats_stale.h5'
    (work / 'sc').mkdir()
    pw.run_stats(env.ref, s_clean, work / 'sc', n_processors=3)
    pw.run_stats(env.ref, s_stale, sh_s, n_processors=3)
    ctx.bump('histories_checked')
    if pw.h5_digest(s_clean) != pw.h5_digest(s_stale):
        ctx.V('C19:history-changes-result[stats]',
              'statistics differ when the scratch directory holds stale '
              'files')
    m_clean = work / 'refm_clean.h5'
    m_stale = work / 'refm_stale.h5'
    pw.run_ref_markers(env.stats, m_clean, work / 'sc', n_processors=3)
    pw.run_ref_markers(env.stats, m_stale, sh_s, n_processors=3)
    ctx.bump('histories_checked')
    if pw.h5_digest(m_clean) != pw.h5_digest(m_stale):
        ctx.V('C19:history-changes-result[reference-markers]',
              'reference markers differ when the scratch directory holds '
              'stale files')
    lk1, _ = pw.run_query_markers(env.refm, env.ref.genes, None,
                                  work / 'sc', n_processors=3)
    lk2, _ = pw.run_query_markers(env.refm, env.ref.genes, None, sh_s,
                                  n_processors=3)
    ctx.bump('histories_checked')
    if lk1 != lk2:
        ctx.V('C19:history-changes-result[query-markers]',
              'selected markers differ among stale files')
    after2 = fsmon.snapshot([sh_s])
    for dd, rel, kind in fsmon.diff_snapshots(planted, after2):
        ctx.V(f'C19:history-scratch-{kind}',
              f'{rel} {kind} in the shared scratch directory (stages)')
    # an earlier run on another taxonomy left its statistics file, under
    # the same file name, in the directory that now receives this run's
    # reference markers / p-value mask; the statistics file this run was
    # given lives elsewhere and exists
    old_dir = work / 'output_dir_with_history'
    new_dir = work / 'output_dir_clean'
    old_dir.mkdir()
    new_dir.mkdir()
    (work / 'other').mkdir()
    other = pw.make_reference(
        np.random.default_rng(spec['seed'] + 77), work / 'other',
        n_levels=2, n_leaves=4, n_genes=len(env.ref.genes),
        cells_per_leaf=(6, 9))
    pw.run_stats(other, old_dir / pathlib.Path(env.stats).name,
                 work / 'sc', n_processors=2)
    lks = {}
    for tag, dd in (('history', old_dir), ('clean', new_dir)):
        refm = dd / 'reference_markers.h5'
        pw.run_ref_markers(env.stats, refm, work / 'sc', n_processors=2)
        for search in (True, False):
            try:
                lk, _ = pw.run_query_markers(refm, env.ref.genes, None,
                                             work / 'sc', n_processors=2,
                                             search=search)
            except Exception as exc:
                if tag == 'clean':
                    raise
                lk = {'raised': f'{type(exc).__name__}: {exc}'[:300]}
            lks[(tag, search)] = lk
    for search in (True, False):
        ctx.bump('histories_checked')
        ctx.bump('earlier_run_products_in_output_dir')
        if lks[('history', search)] != lks[('clean', search)]:
            ctx.V('C19:earlier-products-change-result[query-markers,'
                  f'search_for_stats_file={search}]',
                  'selected markers depend on a same-named statistics file '
                  'left in the reference-marker directory by an earlier '
                  'run; parents '
                  f'{sorted(lks[("history", search)])[:6]} vs '
                  f'{sorted(lks[("clean", search)])[:6]}')
    return None


# ------------------------------------------------------------------- pair

def run_pair(spec, work, ctx):
    rng = np.random.default_rng(spec['seed'])
    env = c14.Env(work / 'env', spec['seed'])
    env.save()
    set_tmpdir(work / 'tmpdir')
    # two different queries
    q2 = work / 'env' / 'query2.h5ad'
    if spec.get('pair_class') == 'long-and-short':
        # one run much longer than the other: the short one finishes (and
        # cleans up) while the long one still needs its scratch files
        nbig = 180
        Xb = env.ref.X[np.arange(nbig) % len(env.ref.X)]
        mapworld.write_h5ad(q2, Xb, [f'p{i}' for i in range(nbig)],
                            env.ref.genes, encoding='csc')
        ctx.bump('concurrent_pairs_long_and_short')
    else:
        mapworld.write_h5ad(q2, env.ref.X[5:20],
                            [f'p{i}' for i in range(15)],
                            env.ref.genes, encoding='csc')
    shared_s = work / 'shared_scratch'
    shared_o = work / 'shared_out'
    shared_s.mkdir()
    shared_o.mkdir()
    barrier = work / 'go'
    script = r'''
import json, sys, time, pathlib
from vp import pipeworld as pw
from cell_type_mapper.cli.from_specified_markers import run_mapping
cfg = json.loads(pathlib.Path(sys.argv[1]).read_text())
barrier = pathlib.Path(sys.argv[2]); skew = float(sys.argv[3])
while not barrier.exists():
    time.sleep(0.002)
if len(sys.argv) > 4 and sys.argv[4] == 'same-clock-reading':
    # both runs of the pair read the same second from the clock, however
    # the scheduler treats them (names derived from a time stamp collide):
    # the reading is the modification time of the shared barrier file
    import cell_type_mapper.cli.from_specified_markers as _m
    import cell_type_mapper.utils.utils as _u
    _fixed = time.strftime('%Y-%m-%d-%H-%M-%S',
                           time.localtime(barrier.stat().st_mtime))
    for _mod in (_m, _u):
        if hasattr(_mod, 'get_timestamp'):
            _mod.get_timestamp = lambda: _fixed
if skew >= 0:
    # start right after the next whole second (both runs of a pair do)
    now = time.time()
    time.sleep((1.0 - (now % 1.0)) + 0.01 + skew)
with pw.quiet():
    run_mapping(config=cfg, output_path=cfg['extended_result_path'],
                log_path=cfg['log_path'],
                hdf5_output_path=cfg['hdf5_result_path'])
'''
    sp = work / 'pair_runner.py'
    sp.write_text(script)

    def cfg_for(tag, query, outd, scratch):
        cfg = pw.mapping_config(outd, query, env.stats, env.lookup,
                                chunk_size=3, n_processors=3,
                                rng_seed=77 if tag == 'A' else 88)
        cfg['tmp_dir'] = str(scratch)
        for k in ('extended_result_path', 'csv_result_path',
                  'hdf5_result_path', 'log_path'):
            p = pathlib.Path(cfg[k])
            cfg[k] = str(p.parent / f'{tag}_{p.name}')
        return cfg

    solo = {}
    for tag, query in (('A', env.query), ('B', q2)):
        sd = work / f'solo_s_{tag}'
        od = work / f'solo_o_{tag}'
        sd.mkdir()
        od.mkdir()
        cfg = cfg_for(tag, query, od, sd)
        cp = work / f'solo_{tag}.json'
        cp.write_text(json.dumps(cfg))
        go = work / f'go_{tag}'
        go.write_text('')
        subprocess.run([sys.executable, str(sp), str(cp), str(go), '-1'],
                       check=True, timeout=200, env=dict(os.environ),
                       stdout=subprocess.DEVNULL, stderr=subprocess.DEVNULL)
        solo[tag] = mapping_outputs(cfg)
    procs = []
    cfgs = {}
    for tag, query in (('A', env.query), ('B', q2)):
        cfg = cfg_for(tag, query, shared_o, shared_s)
        cfgs[tag] = cfg
        cp = work / f'pair_{tag}.json'
        cp.write_text(json.dumps(cfg))
        skew = float(rng.uniform(0, 0.05))
        procs.append(subprocess.Popen(
            [sys.executable, str(sp), str(cp), str(barrier), str(skew)]
            + (['same-clock-reading']
               if spec.get('pair_class') == 'long-and-short' else []),
            env=dict(os.environ), stdout=subprocess.DEVNULL,
            stderr=subprocess.PIPE))
    import time
    time.sleep(3.0)            # both interpreters imported and waiting
    # release both just after a whole second: anything a run derives from
    # a one-second time stamp is then the same for the two
    now = time.time()
    time.sleep((1.0 - (now % 1.0)) + 0.03)
    barrier.write_text('')
    errs = []
    for p in procs:
        try:
            _, se = p.communicate(timeout=200)
        except subprocess.TimeoutExpired:
            p.kill()
            return 'concurrent run timed out'
        if p.returncode != 0:
            errs.append(se.decode('utf-8', 'replace')[-600:])
    ctx.bump('concurrent_pairs_checked')
    if errs:
        ctx.V('C19:concurrent-run-fails', errs[0])
        return None
    for tag in ('A', 'B'):
        res = mapping_outputs(cfgs[tag])
        for k in ('json', 'csv', 'hdf5'):
            if res[k] != solo[tag][k]:
                ctx.V('C19:concurrent-run-changes-result',
                      f'run {tag}: {k} differs from its solo result')
                break
    left = listing(shared_s)
    if left:
        ctx.V('C19:scratch-left-behind[concurrent-pair]', f'{left[:8]}')
    return None


# ----------------------------------------------------------------- strace

def run_strace(spec, work, ctx):
    stage = spec['stage']
    env = c14.Env(work / 'env', spec['seed'])
    env.save()
    tmpd = work / 'tmpdir'
    tmpd.mkdir()
    out_dir = work / 'out'
    out_dir.mkdir()
    res = work / 'out' / 'result.json'
    log = work / 'strace.log'
    e = dict(os.environ)
    e['TMPDIR'] = str(tmpd)
    cwd = work / 'cwd'
    cwd.mkdir()
    in_dig = {str(p): fsmon.file_digest(p)
              for p in (work / 'env').glob('*') if p.is_file()}
    proc = fsmon.run_under_strace(
        [sys.executable, '-m', 'vp.stage_runner', '--env-dir',
         str(work / 'env'), '--stage', stage, '--out-dir', str(out_dir),
         '--result', str(res)], log, e, cwd)
    if not res.exists():
        return ('stage under strace did not finish: '
                + proc.stdout.decode('utf-8', 'replace')[-500:])
    r = json.loads(res.read_text())
    if 'exception' in r:
        return f'stage raised under strace: {r["exception"]}'
    ws = fsmon.write_set(log, str(cwd))
    n_calls = sum(1 for _ in fsmon.parse_strace(log))
    ctx.bump('strace_runs')
    ctx.bump('syscalls_inspected', n_calls)
    ctx.bump('paths_written', len(ws))
    allowed_prefix = [str(out_dir), str(work / 'env' / 'tmp'), str(tmpd),
                      '/dev/shm', '/proc', '/dev/null', '/dev/tty']
    for p, calls in sorted(ws.items()):
        if any(p == a or p.startswith(a + '/') for a in allowed_prefix):
            continue
        ctx.V(f'C19:write-outside-declared-locations[{stage}]',
              f'{p} touched by {sorted(calls)} during stage {stage}')
    for p, dg in in_dig.items():
        if p.endswith('env.pkl'):
            continue
        if not os.path.exists(p) or fsmon.file_digest(p) != dg:
            ctx.V(f'C19:input-modified[{stage}]', p)
    left = listing(work / 'env' / 'tmp') + listing(tmpd) + listing(cwd)
    if left:
        ctx.V(f'C19:scratch-left-behind[{stage}]', f'{left[:8]}')
    return None


def run_case(spec, work):
    ctx = Ctx()
    kind = spec['kind']
    saved_tmp = (os.environ.get('TMPDIR'), tempfile.tempdir)
    try:
        if kind == 'chain':
            note = run_chain(spec, work, ctx)
        elif kind == 'fail':
            note = run_fail(spec, work, ctx)
        elif kind == 'history':
            note = run_history(spec, work, ctx)
        elif kind == 'pair':
            note = run_pair(spec, work, ctx)
        else:
            note = run_strace(spec, work, ctx)
    finally:
        os.chdir(work)
        if saved_tmp[0] is not None:
            os.environ['TMPDIR'] = saved_tmp[0]
        tempfile.tempdir = saved_tmp[1]
    feat = [kind, spec.get('fail_class') or spec.get('stage')
            or spec.get('pair_class') or '']
    if note is not None and not ctx.viol:
        return {'violations': [], 'counters': ctx.counters,
                'inconclusive': note, 'features': None, 'nontrivial': False}
    return {'violations': ctx.viol, 'counters': ctx.counters,
            'features': feat, 'nontrivial': True,
            'sample': {'kind': kind, 'detail': feat[1],
                       'counters': dict(ctx.counters)}}
