"""
C18 - the stages compose: cluster centroids map back to themselves.
End-to-end chain using only the pipeline's own stages and files (reference
h5ad -> statistics -> reference markers [direct or p-value-mask route] ->
query-marker lookup -> mapping); the query holds the leaf mean profiles read
from the statistics file.  The precondition of the statement is evaluated
from the guarded trace with the independent vote oracle.
"""
import json
import pathlib
import traceback

import h5py
import numpy as np

from vp import mapworld, oracles, pipeworld as pw, vote_oracle

PROPERTY = 'C18'
LEVEL = 'exploration'
CASE_TIMEOUT = 240
BATCH_SIZE = {'quick': 2, 'thorough': 8}
REQUIRED_COUNTERS = ['chains_completed', 'centroid_node_pairs_checked',
                     'stage_handoffs_observed', 'draws_checked',
                     'chains_with_a_node_wider_than_4x_reported_candidates',
                     'chains_with_a_parent_of_one_leaf_children',
                     'chains_with_a_leaf_without_reference_cells',
                     'chains_with_exactly_256_iterations',
                     'chains_with_numbered_labels_shared_across_levels',
                     'chains_at_factor_one_with_several_iterations']
RULE = ('case = generated labelled reference (separable clusters, 2-4 '
        'levels, 5-9 leaves, leaf names in non-alphabetical creation order) '
        'pushed through statistics -> reference markers (direct route, or '
        'p-value mask route in every 3rd case) -> query-marker selection -> '
        'mapping of the centroid query (declared log2CPM) written in 4-6 '
        'gene orders (random permutation, reference order, reversed, first '
        'and last marker kept in place with the genes between them shuffled '
        '/ two swapped, markers only), hierarchical and flattened, '
        'bootstrap factor 0.3-1, several seeds, worker counts and '
        'encodings.  A (centroid, node) pair is don\'t-care when the oracle '
        'finds another leaf under the node with correlation >= 1-1e-9 on a '
        'drawn subset, or the centroid constant on it.  Non-trivial = at '
        'least one (centroid, node) pair with a real choice was checked')
ASSUMPTIONS = [
    'no hand-written intermediate file: every stage reads what the previous '
    'stage wrote',
    'average correlation compared with 1 within 1e-9',
]


def gen_cases(tier, seed):
    rng = np.random.default_rng([seed, 118])
    n = 12 if tier == 'quick' else 1000
    cases = []
    for i in range(n):
        cases.append({
            'seed': int(rng.integers(2 ** 31)),
            'n_levels': int(rng.integers(2, 5)),
            'n_leaves': int(rng.integers(5, 10)),
            'factor': [0.3, 0.5, 0.7, 0.9, 1.0][
                (i + seed) % 5],
            'iterations': int(rng.choice([5, 20, 50])),
            'route': 'pmask' if i % 3 == 2 else 'direct',
            'ref_encoding': str(rng.choice(['dense', 'csr', 'csc'])),
            'n_proc': int(rng.integers(1, 4)),
            'n_per_utility': int(rng.integers(2, 8)),
            'rng_seed': int(rng.integers(2 ** 31)),
        })
        if i % 6 == 0:
            # iteration counts at the edge of the narrowest vote counter: a
            # centroid collects every single vote
            cases[-1]['iterations'] = [256, 255, 257][(i // 6 + seed) % 3]
            if i == 0:
                cases[-1]['iterations'] = 256
        if i % 4 == 1:
            # a parent all of whose children own exactly one leaf (votes
            # are then not aggregated), next to one with a two-leaf child
            cases[-1].update({'n_levels': 3, 'n_leaves': 7,
                              'one_leaf_children': True})
        if i % 4 == 0:
            cases[-1]['numbered'] = True
            cases[-1]['n_levels'] = 3
        if i % 4 == 2:
            cases[-1]['empty_leaf'] = True
        if i % 4 == 3:
            # a wide node: one parent with far more children than
            # runners-up are reported
            cases[-1].update({'n_levels': 2,
                              'n_leaves': int(rng.integers(26, 34)),
                              'n_runners_up': 2, 'wide': True,
                              'iterations': 5})
    return cases



def _map_and_check(spec, rng, mwork, model, means, cols, leaves, pm, stats,
                   lookup, lk, oname, flatten, counters, dontcare, viol):
    def bump(k, n=1):
        counters[k] = counters.get(k, 0) + n
    qgenes = [cols[i] for i in pm]
    Xq = np.array([means[lf][pm] for lf in leaves])
    w = mapworld.World()
    w.work = mwork
    for d in ('in', 'out', 'scratch', 'trace', 'cwd'):
        (w.work / d).mkdir(parents=True)
    w.model = model
    w.Xq = Xq
    w.query_genes = qgenes
    w.cell_ids = [f'centroid_{lf}' for lf in leaves]
    w.ref_genes = cols
    w.stats_path = stats
    w.marker_path = lookup
    w.marker_table = lk
    w.query_path = w.work / 'in' / 'centroids.h5ad'
    w.drop_level = None
    mapworld.write_h5ad(w.query_path, Xq, w.cell_ids, qgenes,
                        encoding=str(rng.choice(['dense', 'csr', 'csc'])))
    s = dict(mapworld.DEFAULT_SPEC)
    s.update({'normalization': 'log2CPM', 'flatten': flatten,
              'chunk_size': int(rng.integers(1, len(leaves) + 2)),
              'n_processors': int(rng.integers(1, 4)),
              'n_runners_up': int(spec.get('n_runners_up', 3)),
              'bootstrap_iteration': spec['iterations'],
              'bootstrap_factor': spec['factor'],
              'min_markers': int(rng.integers(1, 8)),
              'rng_seed': spec['rng_seed'], 'with_csv': False,
              'with_hdf5': False, 'cloud_safe': False})
    w.spec = s
    w.config = mapworld.make_config(w, s)
    tag = f'[{oname}{",flatten" if flatten else ""}]'
    r = mapworld.run_world(w, trace=True)
    if r['exception'] is not None:
        sig, last = oracles.exception_signature(r['traceback'],
                                                r.get('stderr'))
        viol.append({'sig': f'C18:mapping-rejects-chain:{sig}',
                     'msg': f'mapping failed on files produced by the '
                            f'pipeline {tag}: {last}'})
        return None
    bump('chains_completed')
    bump('gene_order_' + oname)
    if flatten:
        bump('flattened_runs')
    results = r['json']['results']
    amb = set()
    c2 = {}
    v2, node_genes = vote_oracle.check_votes(
        w, results, r['trace'], c2, dontcare, check_outputs=True,
        ambiguous_out=amb, tie=1e-9)
    viol += [dict(v, sig=v['sig'].replace('C02:', 'C18:vote-'),
                  msg=tag + ' ' + v['msg']) for v in v2]
    bump('draws_checked', c2.get('draws_checked', 0))
    by_id = {rec['cell_id']: rec for rec in results}
    for lf in leaves:
        cid = f'centroid_{lf}'
        rec = by_id[cid]
        path = model.path_of_leaf(lf)
        if flatten:
            lr = rec[model.leaf_level]
            if len(model.leaves) > 1:
                if (cid, 'None') in amb:
                    dontcare['centroid_nodes_with_rival_leaf'] = \
                        dontcare.get('centroid_nodes_with_rival_leaf', 0) + 1
                    continue
                bump('centroid_node_pairs_checked')
                if lr['assignment'] != lf:
                    viol.append({
                        'sig': 'C18:centroid-misassigned',
                        'msg': f'{tag} centroid of {lf} assigned to '
                               f'{lr["assignment"]!r}'})
                    continue
                if lr['bootstrapping_probability'] != 1.0:
                    viol.append({
                        'sig': 'C18:centroid-probability',
                        'msg': f'{tag} centroid of {lf}: probability '
                               f'{lr["bootstrapping_probability"]}'})
                if abs(lr['avg_correlation'] - 1.0) > 1e-9:
                    viol.append({
                        'sig': 'C18:centroid-correlation',
                        'msg': f'{tag} centroid of {lf}: avg_correlation '
                               f'{lr["avg_correlation"]!r}'})
            for lv in model.hierarchy:
                if rec[lv]['assignment'] != path[lv] and \
                        rec[model.leaf_level]['assignment'] == lf:
                    viol.append({'sig': 'C18:centroid-misassigned',
                                 'msg': f'{tag} {lf}: level {lv} -> '
                                        f'{rec[lv]["assignment"]!r}'})
                    break
            continue
        prev_lv, prev_node = None, None
        for lv in model.hierarchy:
            kids = model.children(prev_lv, prev_node)
            pkey = 'None' if prev_lv is None else f'{prev_lv}/{prev_node}'
            lr = rec[lv]
            if len(kids) > 1:
                if (cid, pkey) in amb:
                    dontcare['centroid_nodes_with_rival_leaf'] = \
                        dontcare.get('centroid_nodes_with_rival_leaf', 0) + 1
                    if lr['assignment'] != path[lv]:
                        break
                else:
                    bump('centroid_node_pairs_checked')
                    if lr['assignment'] != path[lv]:
                        viol.append({
                            'sig': 'C18:centroid-misassigned',
                            'msg': f'{tag} centroid of {lf} assigned to '
                                   f'{lv}={lr["assignment"]!r}, own '
                                   f'ancestor is {path[lv]!r} (markers at '
                                   f'{pkey}: {node_genes.get(pkey)})'})
                        break
                    if lr['bootstrapping_probability'] != 1.0:
                        viol.append({
                            'sig': 'C18:centroid-probability',
                            'msg': f'{tag} centroid of {lf} at {pkey}: '
                                   f'probability '
                                   f'{lr["bootstrapping_probability"]}'})
                    if abs(lr['avg_correlation'] - 1.0) > 1e-9:
                        viol.append({
                            'sig': 'C18:centroid-correlation',
                            'msg': f'{tag} centroid of {lf} at {pkey}: '
                                   f'avg_correlation '
                                   f'{lr["avg_correlation"]!r}'})
            elif lr['assignment'] != path[lv]:
                viol.append({'sig': 'C18:centroid-misassigned',
                             'msg': f'{tag} {lf}: trivial level {lv} -> '
                                    f'{lr["assignment"]!r}'})
                break
            prev_lv, prev_node = lv, path[lv]
    return node_genes

def run_case(spec, work):
    rng = np.random.default_rng(spec['seed'])
    work = pathlib.Path(work)
    tmp = work / 'tmp'
    tmp.mkdir()
    counters, dontcare, viol = {}, {}, []

    def bump(k, n=1):
        counters[k] = counters.get(k, 0) + n
    forest = None
    if spec.get('one_leaf_children'):
        one = ((),)
        forest = ((one, one, one, one), (((), ()), one))
        bump('chains_with_a_parent_of_one_leaf_children')
    if spec.get('wide'):
        na = int(rng.integers(14, 20))
        forest = (tuple(() for _ in range(na)),
                  tuple(() for _ in range(spec['n_leaves'] - na)))
    if spec.get('numbered'):
        bump('chains_with_numbered_labels_shared_across_levels')
    ref = pw.make_reference(rng, work, forest=forest,
                            numbered=bool(spec.get('numbered')),
                            pad_labels=bool(spec.get('one_leaf_children')),
                            n_levels=spec['n_levels'],
                            n_leaves=spec['n_leaves'],
                            n_genes=(int(rng.integers(30, 60))
                                     if not spec.get('wide') else 90),
                            cells_per_leaf=(8, 14),
                            encoding=spec['ref_encoding'])
    if spec['iterations'] == 256:
        bump('chains_with_exactly_256_iterations')
    if spec['factor'] == 1.0 and spec['iterations'] > 1:
        bump('chains_at_factor_one_with_several_iterations')
    model = ref.model
    widest = max(len(model.children(lv, n)) for lv in [None] +
                 model.hierarchy[:-1]
                 for n in ([None] if lv is None else model.nodes[lv]))
    if widest > 4 * (int(spec.get('n_runners_up', 3)) + 1):
        bump('chains_with_a_node_wider_than_4x_reported_candidates')
    stats = work / 'stats.h5'
    refm = work / 'refm.h5'
    lookup = work / 'lookup.json'
    stage = 'statistics'
    try:
        if spec.get('empty_leaf'):
            # the taxonomy names a leaf that has no cell in the reference
            # data (statistics entered with an explicit tree)
            lf_lv = model.leaf_level
            model.nodes[lf_lv].append('EMPTY_LEAF')
            if len(model.hierarchy) > 1:
                up = model.hierarchy[-2]
                model.parent[lf_lv]['EMPTY_LEAF'] = model.nodes[up][
                    int(rng.integers(len(model.nodes[up])))]
            # (this entry point addresses cells by row number)
            model.cells = {lf: [j for j, l in enumerate(ref.labels)
                                if l == lf] for lf in model.leaves}
            pw.run_stats_with_tree(
                ref, stats, tmp, model.to_dict(with_cells=True),
                n_processors=spec['n_proc'],
                rows_at_a_time=int(rng.integers(3, 40)))
            bump('chains_with_a_leaf_without_reference_cells')
        else:
            pw.run_stats(ref, stats, tmp, n_processors=spec['n_proc'],
                         rows_at_a_time=int(rng.integers(3, 40)))
        bump('stage_handoffs_observed')
        stage = 'reference markers'
        if spec['route'] == 'direct':
            pw.run_ref_markers(stats, refm, tmp,
                               n_processors=spec['n_proc'],
                               n_valid=int(rng.integers(3, 15)))
        else:
            pmask = work / 'pmask.h5'
            pw.run_p_mask(stats, pmask, tmp, n_processors=spec['n_proc'],
                          n_per=8)
            bump('stage_handoffs_observed')
            stage = 'markers from p-value mask'
            pw.run_markers_from_p_mask(
                stats, pmask, refm, tmp, n_processors=spec['n_proc'],
                n_valid=int(rng.integers(3, 15)))
        bump('stage_handoffs_observed')
        stage = 'query-marker selection'
        # centroid query: leaf means read from the statistics file
        means, cols = vote_oracle.read_leaf_means(stats)
        leaves = [lf for lf in model.leaves if lf != 'EMPTY_LEAF']
        rng.shuffle(leaves)
        perm = rng.permutation(len(cols))
        qgenes = [cols[i] for i in perm]
        lk, _ = pw.run_query_markers(
            refm, qgenes, lookup, tmp, n_processors=spec['n_proc'],
            n_per_utility=spec['n_per_utility'])
        bump('stage_handoffs_observed')
    except Exception:
        tb = traceback.format_exc()
        sig, last = oracles.exception_signature(tb)
        return {'violations': [{'sig': f'C18:stage-rejects-input:{sig}',
                                'msg': f'stage "{stage}" failed on the '
                                       f'output of the previous stage: '
                                       f'{last}'}],
                'counters': counters, 'features': None, 'nontrivial': True}
    root_kids = model.children(None, None)
    if len(root_kids) > 1 and not lk.get('None'):
        return {'violations': [], 'counters': counters,
                'inconclusive': 'no marker selected for the root '
                                '(clusters not separable enough)',
                'features': None, 'nontrivial': False}
    # gene orders in which the centroid query is written: a random
    # permutation, the reference order, its reverse, and orders that keep
    # the first and the last marker gene in place while the genes between
    # them are shuffled / two of them swapped
    all_markers = set()
    for k, v in lk.items():
        if k not in ('metadata', 'log'):
            all_markers |= set(v)
    mpos = [i for i, g in enumerate(cols) if g in all_markers]
    ident = np.arange(len(cols))
    orders = [('random', perm), ('reference', ident),
              ('reversed', ident[::-1].copy())]
    if len(mpos) >= 4:
        inner = np.arange(mpos[0] + 1, mpos[-1])
        p2 = ident.copy()
        p2[inner] = rng.permutation(inner)
        orders.append(('interior-shuffled', p2))
        p3 = ident.copy()
        i1, i2 = [int(x) for x in rng.choice(mpos[1:-1], size=2,
                                             replace=False)]
        p3[i1], p3[i2] = p3[i2], p3[i1]
        orders.append(('two-interior-markers-swapped', p3))
        # only the marker genes, nothing else, interior shuffled
        p4 = np.array(mpos)
        p4[1:-1] = rng.permutation(p4[1:-1])
        orders.append(('markers-only-interior-shuffled', p4))
    runs = []
    for oi, (oname, pm) in enumerate(orders):
        for flatten in ((False, True) if oi != 0 else (False,)):
            if flatten and (oi + spec['seed']) % 2 == 0 \
                    and oname in ('reference', 'reversed'):
                continue
            runs.append((oname, pm, flatten))
    node_genes = {}
    for ri, (oname, pm, flatten) in enumerate(runs):
        if len(viol) >= 8:
            break
        node_genes = _map_and_check(
            spec, rng, work / f'map{ri}', model, means, cols, leaves, pm,
            stats, lookup, lk, oname, flatten, counters, dontcare, viol)
        if node_genes is None:
            break
    return {'violations': viol[:8], 'counters': counters,
            'dontcare': dontcare,
            'features': [spec['n_levels'], spec['n_leaves'], spec['factor'],
                         spec['route'], spec['ref_encoding']],
            'nontrivial': counters.get('centroid_node_pairs_checked', 0) > 0,
            'sample': {'hierarchy': model.hierarchy, 'leaves': leaves,
                       'route': spec['route'], 'factor': spec['factor'],
                       'markers_per_parent': {k: len(v)
                                              for k, v in lk.items()}}}
