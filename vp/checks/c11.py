"""
C11 - reference markers are sound and complete for the stated criteria.
Reference-model monitor: the real marker finders (direct route and p-value
mask route) run on statistics files made by the pipeline from generated
cells; every recorded (pair, gene) and every strictly qualifying (pair, gene)
is judged by an oracle computed from the raw cells (scipy Welch on per-cell
log2(CPM+1), own Holm step-down, penetrances as exact fractions).
"""
import contextlib
import io
import itertools
import json
import traceback
from fractions import Fraction

import h5py
import numpy as np
import scipy.sparse
import scipy.stats

from vp import gen, mapworld, oracles, pipeworld as pw

PROPERTY = 'C11'
LEVEL = 'exploration'
CASE_TIMEOUT = 400
BATCH_SIZE = {'quick': 1, 'thorough': 4}
REQUIRED_COUNTERS = ['marker_files_checked', 'pair_gene_decisions',
                     'holm_running_max_decides',
                     'gene_list_approx_floors_off_cases',
                     'references_with_an_unexpressed_gene_block',
                     'references_with_two_clusters_over_1290_cells',
                     'zero_variance_genes_kept_out_by_p_convention',
                     'marker_tables_over_200_entries_at_tiny_budget',
                     'recorded_markers_judged', 'strict_markers_expected',
                     'pmask_files_checked', 'rename_pairs_compared',
                     'differential_runs_compared',
                     'pairs_with_a_single_cell_cluster']
RULE = ('case = generated reference (cluster sizes from 1 up, zero-variance '
        'genes, tied means, 5-40 genes, CPM == 1 boundary cells) -> '
        'statistics by the pipeline -> find_markers_for_all_taxonomy_pairs '
        'with random thresholds (each strict one above its floor), optional '
        'gene list, exact / approximate penetrance, small n_valid, 1-3 '
        'workers, tiny to large max_gb; the p-value-mask route on the same '
        'input; a renamed copy (leaf order reversed); re-runs with other '
        'worker counts / budgets.  Non-trivial = at least one marker '
        'recorded and one pair without markers or with a direction split; '
        'distinct = distinct (n leaves, n genes, thresholds, mode) tuples')
ASSUMPTIONS = [
    'Welch undefined (no variance in either cluster): p = 1, the '
    'convention the property\'s mechanism list names ("NaN -> 0.5" for the '
    'CDF); checked only where the harness engineered exact statistics, '
    'don\'t-care elsewhere (rounding of sum / sumsq decides); Holm p '
    'within 1e-6 relative '
    'of the threshold, scores within 1e-9 of a threshold or floor, mean '
    'difference below 1e-12 for the direction',
    'statistics are produced by the pipeline\'s own stage (checked by C09)',
]


def gen_cases(tier, seed):
    rng = np.random.default_rng([seed, 111])
    n = 25 if tier == 'quick' else 2400
    cases = []
    for i in range(n):
        c = {'seed': int(rng.integers(2 ** 31))}
        if i % 3 == 0:
            # duplicated genes (tied raw p-values) and a p threshold tuned
            # so that the running maximum of the Holm step-down decides
            c['tune_p'] = True
        if i % 5 == 1:
            # gene list + approximate penetrance + floors switched off
            c['force'] = 'list-approx-nofloors'
        if i % 4 == 2:
            c['dead_block'] = True
        if i % 8 == 7:
            c['huge'] = True
        if i % 6 == 3:
            # genes with exactly zero variance in both clusters of a pair
            # and different means (statistics engineered to exact values)
            c['zero_var'] = True
        if i % 6 == 5:
            # many entries + a budget of a few bytes: the gene-major tables
            # are built in several windows
            c['big'] = True
            c['big_gene_list'] = bool((i // 6) % 2)
        cases.append(c)
    return cases


def make_cells(rng, dup=False, dead_block=False, big=False, huge=False):
    k = int(rng.integers(3, 8))
    n_genes = int(rng.integers(5, 40))
    if big:
        # enough (pair, gene) entries to cross the enforced minimum window
        # of the on-disk transposition several times
        k = int(rng.integers(14, 18))
        n_genes = int(rng.integers(55, 75))
    names = gen._pick_names(rng, k, gen.NODE_NAME_POOL)
    sizes = []
    for i in range(k):
        r = rng.random()
        if huge and i < 2:
            # two clusters of well over a thousand cells (n^3 no longer
            # fits 32 bits)
            sizes.append(int(rng.integers(1300, 2100)))
        elif big:
            sizes.append(int(rng.integers(8, 16)))
        elif r < 0.15:
            sizes.append(1)
        elif r < 0.3:
            sizes.append(2)
        else:
            sizes.append(int(rng.integers(3, 14)))
    on = {nm: set(int(x) for x in rng.choice(
        n_genes, size=int(rng.integers(1, max(2, n_genes // 2))),
        replace=False)) for nm in names}
    flat = set(int(x) for x in rng.choice(
        n_genes, size=max(1, n_genes // 8), replace=False))
    X, labels = [], []
    for nm, sz in zip(names, sizes):
        for _ in range(sz):
            row = rng.integers(0, 3, size=n_genes).astype(float)
            row[rng.random(n_genes) < 0.4] = 0
            for j in on[nm]:
                row[j] = float(rng.integers(20, 400))
                if rng.random() < 0.2:
                    row[j] = 0.0          # incomplete penetrance
            for j in flat:
                row[j] = 5.0              # tied, zero variance in counts
            if rng.random() < 0.1 and n_genes >= 3:
                # big total: count 1 -> CPM 0.5, count 2 -> CPM 1 exactly
                row[:] = 0
                row[0] = 2_000_000 - 3
                row[1] = 1
                row[2] = 2
            X.append(row)
            labels.append(nm)
    order = rng.permutation(len(labels))
    X = np.array(X)[order]
    labels = [labels[i] for i in order]
    if dead_block:
        # a contiguous run of genes never expressed anywhere: whole blocks
        # of the gene-major tables stay empty
        a = int(rng.integers(0, max(1, n_genes // 2)))
        X[:, a:a + max(2, n_genes // 3)] = 0.0
    if dup:
        # exact copies of a few columns: tied raw p-values in every pair
        src = rng.choice(n_genes, size=min(n_genes, int(rng.integers(2, 5))),
                         replace=False)
        cols = [X]
        for j in src:
            for _ in range(int(rng.integers(2, 7))):
                cols.append(X[:, [int(j)]])
        X = np.hstack(cols)
        X = X[:, rng.permutation(X.shape[1])]
        n_genes = X.shape[1]
    return names, X, labels, n_genes


def write_ref(path, X, labels, genes, rng):
    cells = [f'c{i}' for i in range(len(labels))]
    mapworld.write_h5ad(path, X, cells, genes,
                        encoding=str(rng.choice(['dense', 'csr', 'csc'])),
                        obs_extra={'cluster': labels})


def stats_for(path, out, tmp):
    from cell_type_mapper.diff_exp.precompute_from_anndata import (
        precompute_summary_stats_from_h5ad)
    with pw.quiet():
        precompute_summary_stats_from_h5ad(
            data_path=path, column_hierarchy=['cluster'],
            taxonomy_tree=None, output_path=out, rows_at_a_time=7,
            normalization='raw', tmp_dir=str(tmp), n_processors=2)


def holm(p, own_out=None):
    m = len(p)
    order = np.argsort(p, kind='stable')
    adj = np.zeros(m)
    running = 0.0
    for rank, idx in enumerate(order):
        val = (m - rank) * p[idx]
        if own_out is not None:
            own_out[idx] = val
        running = max(running, val)
        adj[idx] = min(1.0, running)
    return adj


def oracle_pair(Va, Vb, Ra, Rb, exact_zero=None):
    """
    Va, Vb: per-cell log2cpm (cells x genes); Ra, Rb raw counts.
    returns dict of per-gene arrays
    """
    n1, n2 = Va.shape[0], Vb.shape[0]
    out = {'n1': n1, 'n2': n2}
    m1, m2 = Va.mean(axis=0), Vb.mean(axis=0)
    out['diff'] = m2 - m1
    out['fold'] = np.abs(m1 - m2)
    # penetrance: exact fractions of cells with CPM >= 1
    band = np.zeros(Va.shape[1], dtype=bool)

    def ge1(R):
        tot = R.sum(axis=1)
        cnt = np.zeros(R.shape[1], dtype=int)
        for i in range(R.shape[0]):
            t = int(round(tot[i])) or 1
            c6 = 1_000_000 * np.round(R[i]).astype(np.int64)
            cnt += (c6 >= t)
            # CPM in (1 - 2e-6, 1): the statistics stage counts ">= 1"
            # with a small tolerance (C09's don't-care band); a penetrance
            # that hinges on such a cell is not decided here
            band[:] |= (c6 < t) & (c6 >= t * (1 - 2e-6))
        return cnt
    g1, g2 = ge1(Ra), ge1(Rb)
    out['penetrance_in_cpm_band'] = band
    p1 = np.array([Fraction(int(c), max(1, n1)) for c in g1])
    p2 = np.array([Fraction(int(c), max(1, n2)) for c in g2])
    q1 = np.array([max(a, b) for a, b in zip(p1, p2)])
    qd = np.array([abs(a - b) / (max(a, b) if max(a, b) > 0 else 1)
                   for a, b in zip(p1, p2)])
    out['q1'] = np.array([float(x) for x in q1])
    out['qdiff'] = np.array([float(x) for x in qd])
    if n1 >= 2 and n2 >= 2:
        with np.errstate(all='ignore'):
            t, p = scipy.stats.ttest_ind(Va, Vb, axis=0, equal_var=False)
        v1 = Va.var(axis=0, ddof=1)
        v2 = Vb.var(axis=0, ddof=1)
        both_zero = (v1 < 1e-20) & (v2 < 1e-20)
        p = np.where(np.isfinite(p), p, 1.0)
        # Welch is undefined when neither cluster has any variance; the
        # convention of the code under test (named in the property's
        # mechanism list: "NaN -> 0.5" for the CDF) is p = 1, i.e. such a
        # gene is never a marker
        p = np.where(both_zero, 1.0, p)
        out['p_raw'] = p
        out['own'] = np.zeros(len(p))
        out['p'] = holm(p, out['own'])
        # ... but whether the *statistics file* yields a variance of exactly
        # zero depends on rounding in sum / sumsq, so the decision is only
        # checked where the harness engineered exact values (exact_zero)
        ez = np.zeros(Va.shape[1], dtype=bool) if exact_zero is None \
            else np.asarray(exact_zero, dtype=bool)
        out['both_zero_exact'] = both_zero & ez
        out['fragile_p'] = both_zero & ~ez & (np.abs(m1 - m2) > 0)
    else:
        out['p'] = np.ones(Va.shape[1])
        out['own'] = np.ones(Va.shape[1])
        out['both_zero_exact'] = np.zeros(Va.shape[1], dtype=bool)
        out['fragile_p'] = np.zeros(Va.shape[1], dtype=bool)
    return out


def read_marker_file(path):
    with h5py.File(path, 'r') as f:
        d = {
            'gene_names': json.loads(f['gene_names'][()].decode()),
            'pair_to_idx': json.loads(f['pair_to_idx'][()].decode()),
            'n_pairs': int(f['n_pairs'][()]),
        }
        for grp in ('sparse_by_pair', 'sparse_by_gene'):
            for k in ('up_pair_idx', 'up_gene_idx', 'down_pair_idx',
                      'down_gene_idx'):
                d[f'{grp}/{k}'] = f[f'{grp}/{k}'][()].astype(np.int64)
    return d


def same_markers(a, b):
    """value-level equality of two marker files (index dtypes may differ
    between the serial and the parallel transposition)"""
    if set(a) != set(b):
        return False
    for k in a:
        if isinstance(a[k], np.ndarray):
            if not np.array_equal(a[k], b[k]):
                return False
        elif a[k] != b[k]:
            return False
    return True


def check_structure(ctx, tag, d, n_genes):
    n_pairs = d['n_pairs']
    for dr in ('up', 'down'):
        ip = d[f'sparse_by_pair/{dr}_pair_idx']
        ix = d[f'sparse_by_pair/{dr}_gene_idx']
        if len(ip) != n_pairs + 1 or ip[0] != 0 or ip[-1] != len(ix) or \
                np.any(np.diff(ip) < 0):
            ctx.V(f'C11:{tag}:pair-pointer-array',
                  f'{dr}: indptr {ip.tolist()[:12]} nnz {len(ix)}')
            return False
        for i in range(n_pairs):
            s = ix[ip[i]:ip[i + 1]]
            if np.any(np.diff(s) <= 0) or (len(s) and
                                           (s.min() < 0 or
                                            s.max() >= n_genes)):
                ctx.V(f'C11:{tag}:pair-slice-not-sorted-unique',
                      f'{dr} pair {i}: {s.tolist()}')
                return False
        gp = d[f'sparse_by_gene/{dr}_gene_idx']
        gx = d[f'sparse_by_gene/{dr}_pair_idx']
        A = scipy.sparse.csr_matrix(
            (np.ones(len(ix), dtype=np.int8), ix, ip),
            shape=(n_pairs, n_genes))
        T = scipy.sparse.csr_matrix(A.T)
        T.sort_indices()
        if len(gp) != n_genes + 1 or \
                not np.array_equal(gp, T.indptr.astype(np.int64)) or \
                not np.array_equal(gx, T.indices.astype(np.int64)):
            ctx.V(f'C11:{tag}:gene-major-not-transpose',
                  f'{dr}: indptr {gp.tolist()[:12]} vs '
                  f'{T.indptr.tolist()[:12]}')
            return False
    return True


def markers_of(d, idx):
    up = d['sparse_by_pair/up_gene_idx'][
        d['sparse_by_pair/up_pair_idx'][idx]:
        d['sparse_by_pair/up_pair_idx'][idx + 1]]
    dn = d['sparse_by_pair/down_gene_idx'][
        d['sparse_by_pair/down_pair_idx'][idx]:
        d['sparse_by_pair/down_pair_idx'][idx + 1]]
    return set(up.tolist()), set(dn.tolist())


class Ctx(object):
    def __init__(self):
        self.viol = []
        self.counters = {}
        self.dontcare = {}

    def bump(self, k, n=1):
        self.counters[k] = self.counters.get(k, 0) + n

    def dc(self, k, n=1):
        self.dontcare[k] = self.dontcare.get(k, 0) + n

    def V(self, sig, msg):
        if len(self.viol) < 8:
            self.viol.append({'sig': sig, 'msg': msg[:1500]})


def judge(ctx, tag, d, names, genes, oracles_by_pair, th, gene_list,
          exact, level='cluster'):
    """soundness / completeness / direction of one marker file"""
    gl = None if gene_list is None else set(gene_list)
    p2i = d['pair_to_idx'][level]
    seen = set()
    n_recorded = 0
    for a, b in itertools.combinations(sorted(names), 2):
        idx = p2i[a][b]
        seen.add(idx)
        o = oracles_by_pair[(a, b)]
        up, dn = markers_of(d, idx)
        if up & dn:
            ctx.V(f'C11:{tag}:gene-both-up-and-down',
                  f'pair ({a},{b}): {sorted(up & dn)}')
        rec = up | dn
        n_recorded += len(rec)
        small = o['n1'] < 2 or o['n2'] < 2
        if small:
            ctx.bump('pairs_with_a_single_cell_cluster')
        for j, g in enumerate(genes):
            ctx.bump('pair_gene_decisions')
            in_list = gl is None or g in gl
            p, q1, qd, fold = o['p'][j], o['q1'][j], o['qdiff'][j], \
                o['fold'][j]
            near_p = abs(p - th['p_th']) <= 1e-6 * th['p_th'] or \
                bool(o['fragile_p'][j])
            if o['penetrance_in_cpm_band'][j]:
                ctx.dc('penetrance_hinges_on_cpm_just_below_one')
                continue
            near = (abs(q1 - th['q1_th']) < 1e-9 or
                    abs(qd - th['qdiff_th']) < 1e-9 or
                    abs(fold - th['log2_fold_th']) < 1e-9)
            near_floor = (abs(q1 - th['q1_min_th']) < 1e-9 or
                          abs(qd - th['qdiff_min_th']) < 1e-9 or
                          abs(fold - th['log2_fold_min_th']) < 1e-9)
            strict = (not small and in_list and p < th['p_th'] and
                      q1 > th['q1_th'] and qd > th['qdiff_th'] and
                      fold > th['log2_fold_th'])
            floors_ok = (q1 >= th['q1_min_th'] and qd >= th['qdiff_min_th']
                         and fold >= th['log2_fold_min_th'])
            if strict:
                ctx.bump('strict_markers_expected')
            if o['both_zero_exact'][j] and abs(o['diff'][j]) > 1e-9 and \
                    in_list and q1 > th['q1_th'] and qd > th['qdiff_th'] \
                    and fold > th['log2_fold_th']:
                # no variance in either cluster, different means, every
                # score passed: only the p = 1 convention keeps it out
                ctx.bump('zero_variance_genes_kept_out_by_p_convention')
            if not small and in_list and o['own'][j] < th['p_th'] <= p \
                    and not near_p and q1 > th['q1_th'] and \
                    qd > th['qdiff_th'] and fold > th['log2_fold_th']:
                # only the running maximum of the step-down keeps this
                # gene out
                ctx.bump('holm_running_max_decides')
            if j in rec:
                ctx.bump('recorded_markers_judged')
                why = None
                if small:
                    why = (f'cluster sizes {o["n1"]}, {o["n2"]} '
                           f'(fewer than two cells)')
                    sig = 'single-cell-cluster'
                elif not in_list:
                    why, sig = 'gene not in the gene list', 'outside-list'
                elif not p < th['p_th']:
                    if near_p:
                        ctx.dc('p_near_threshold')
                    else:
                        why = (f'Holm p {p:.3e} >= {th["p_th"]}')
                        sig = 'p-value'
                elif not floors_ok:
                    if near_floor:
                        ctx.dc('score_near_floor')
                    else:
                        why = (f'below a floor: q1={q1:.4f} '
                               f'qdiff={qd:.4f} fold={fold:.4f} floors '
                               f'{th["q1_min_th"]},{th["qdiff_min_th"]},'
                               f'{th["log2_fold_min_th"]}')
                        sig = 'floor'
                elif exact and not strict:
                    if near or near_p:
                        ctx.dc('score_near_threshold')
                    else:
                        why = (f'exact penetrance requested but '
                               f'q1={q1:.4f} qdiff={qd:.4f} '
                               f'fold={fold:.4f} p={p:.2e} does not pass '
                               f'the strict thresholds')
                        sig = 'not-strict-under-exact'
                if why:
                    ctx.V(f'C11:{tag}:unsound[{sig}]',
                          f'pair ({a},{b}) gene {g}: recorded although '
                          f'{why}')
                # direction
                if abs(o['diff'][j]) > 1e-12:
                    want_up = o['diff'][j] > 0
                    if (j in up) != want_up:
                        ctx.V(f'C11:{tag}:direction',
                              f'pair ({a},{b}) gene {g}: mean difference '
                              f'{o["diff"][j]:.4f} recorded as '
                              f'{"up" if j in up else "down"}')
            elif strict:
                if near or near_p:
                    ctx.dc('score_near_threshold')
                else:
                    ctx.V(f'C11:{tag}:incomplete',
                          f'pair ({a},{b}) gene {g}: passes every strict '
                          f'threshold (p={p:.2e}, q1={q1:.3f}, '
                          f'qdiff={qd:.3f}, fold={fold:.3f}) but is not '
                          f'recorded')
    if seen != set(range(d['n_pairs'])):
        ctx.V(f'C11:{tag}:pair-index', f'{len(seen)} of {d["n_pairs"]}')
    return n_recorded


def run_case(spec, work):
    rng = np.random.default_rng(spec['seed'])
    ctx = Ctx()
    tmp = work / 'tmp'
    tmp.mkdir()
    names, X, labels, n_genes = make_cells(
        rng, dup=bool(spec.get('tune_p')),
        dead_block=bool(spec.get('dead_block')), big=bool(spec.get('big')),
        huge=bool(spec.get('huge')))
    if spec.get('huge'):
        ctx.bump('references_with_two_clusters_over_1290_cells')
    if spec.get('dead_block'):
        ctx.bump('references_with_an_unexpressed_gene_block')
    genes = gen.gene_names(rng, n_genes)
    ref = work / 'ref.h5ad'
    zv = None
    if spec.get('zero_var'):
        lab0 = np.array(labels)
        big = [nm for nm in names if (lab0 == nm).sum() >= 2]
        if len(big) >= 2:
            a, b = [str(x) for x in rng.choice(big, size=2, replace=False)]
            gsel = [int(x) for x in rng.choice(
                n_genes, size=min(3, n_genes), replace=False)]
            for g in gsel:
                X[lab0 == b, g] = 0.0          # log2(CPM+1) = 0 exactly
                X[lab0 == a, g] = rng.integers(
                    150, 400, size=int((lab0 == a).sum())).astype(float)
            zv = (a, b, gsel)
    write_ref(ref, X, labels, genes, rng)
    stats = work / 'stats.h5'
    try:
        stats_for(ref, stats, tmp)
    except Exception:
        return {'violations': [{
                    'sig': 'C11:statistics-stage-raised-on-valid-input',
                    'msg': traceback.format_exc()[-600:]}],
                'counters': {}, 'features': ['raised'], 'nontrivial': True}
    V = gen.log2cpm(X)
    lab = np.array(labels)
    if zv is not None:
        # cluster a: the statistics of the chosen genes are rewritten to
        # those of a constant 2.5 (sum = n x 2.5, sumsq = n x 6.25: exact
        # in binary floating point), and the oracle sees the same cells
        za, zb, gsel = zv

        def engineer(path, cluster):
            with h5py.File(path, 'a') as f:
                c2r = json.loads(f['cluster_to_row'][()].decode())
                ra = c2r[cluster]
                na = int(f['n_cells'][ra])
                for g in gsel:
                    f['sum'][ra, g] = na * 2.5
                    f['sumsq'][ra, g] = na * 6.25
        engineer(stats, za)
        for g in gsel:
            V[lab == za, g] = 2.5
    orc = {}
    for a, b in itertools.combinations(sorted(names), 2):
        ez = None
        if zv is not None and {a, b} == {zv[0], zv[1]}:
            ez = np.zeros(n_genes, dtype=bool)
            ez[zv[2]] = True
        orc[(a, b)] = oracle_pair(V[lab == a], V[lab == b],
                                  X[lab == a], X[lab == b], exact_zero=ez)
    th = {'p_th': float(rng.choice([0.01, 0.05, 0.001])),
          'q1_min_th': float(rng.choice([0.05, 0.1, 0.3])),
          'qdiff_min_th': float(rng.choice([0.05, 0.1, 0.3])),
          'log2_fold_min_th': float(rng.choice([0.2, 0.8, 1.5]))}
    if rng.random() < 0.25:
        # floors switched off altogether (still below the strict values)
        th['q1_min_th'] = 0.0
        th['qdiff_min_th'] = 0.0
        th['log2_fold_min_th'] = float(rng.choice([0.0, -1.0]))
    th['q1_th'] = th['q1_min_th'] + float(rng.choice([0.1, 0.4]))
    th['qdiff_th'] = th['qdiff_min_th'] + float(rng.choice([0.1, 0.5]))
    th['log2_fold_th'] = th['log2_fold_min_th'] + float(
        rng.choice([0.2, 1.0]))
    exact = bool(rng.random() < 0.4)
    n_valid = int(rng.integers(1, min(10, n_genes) + 1))
    if spec.get('big'):
        n_valid = 40
        exact = False
        th['p_th'] = 0.05
    gene_list = None
    if rng.random() < 0.35 and not spec.get('big'):
        gene_list = [g for g in genes if rng.random() < 0.6] or [genes[0]]
    if spec.get('big') and spec.get('big_gene_list'):
        gene_list = [g for g in genes if rng.random() < 0.85]
    if spec.get('big') and gene_list is not None:
        # many pairs, a gene list, approximate penetrance: pairs short of
        # n_valid markers go through the relaxed second pass
        ctx.bump('many_pair_tables_with_gene_list_and_relaxed_pass')
    if spec.get('force') == 'list-approx-nofloors':
        exact = False
        if gene_list is None:
            gene_list = [g for g in genes if rng.random() < 0.6] or \
                [genes[0]]
        th['q1_min_th'] = 0.0
        th['qdiff_min_th'] = 0.0
        th['log2_fold_min_th'] = float(rng.choice([0.0, -1.0]))
        # every strict threshold stays above its floor (the code rejects
        # anything else)
        th['log2_fold_th'] = max(th['log2_fold_th'],
                                 th['log2_fold_min_th'] + 0.2)
        ctx.bump('gene_list_approx_floors_off_cases')
    if spec.get('tune_p'):
        # put the p threshold where the step-down's running maximum, not
        # the gene's own (m-rank) x p, decides: own < p_th <= adjusted, for
        # a gene that passes the strict score thresholds
        best = None
        gl = None if gene_list is None else set(gene_list)
        for (a, b), o in orc.items():
            if o['n1'] < 2 or o['n2'] < 2:
                continue
            for j in range(n_genes):
                own, adj = o['own'][j], o['p'][j]
                if not (0 < own < adj < 1.0):
                    continue
                if gl is not None and genes[j] not in gl:
                    continue
                if not (o['q1'][j] > th['q1_th'] and
                        o['qdiff'][j] > th['qdiff_th'] and
                        o['fold'][j] > th['log2_fold_th']):
                    continue
                score = adj / own
                if own < 1e-12:
                    score *= 1e-3      # prefer ordinary magnitudes
                if best is None or score > best[0]:
                    best = (score, own, adj)
        if best is not None and best[0] > 1.0 + 1e-4:
            th['p_th'] = float(np.sqrt(best[1] * best[2]))
            ctx.bump('cases_with_tuned_p_threshold')
    n_proc = int(rng.integers(1, 5))
    max_gb = float(rng.choice([1e-9, 1e-6, 0.01, 1.0]))
    if spec.get('big'):
        max_gb = float(rng.choice([1e-9, 1e-8]))
    what = (f'leaves={len(names)} genes={n_genes} th={th} exact={exact} '
            f'n_valid={n_valid} gene_list={gene_list is not None} '
            f'n_processors={n_proc} max_gb={max_gb}')
    from cell_type_mapper.diff_exp.markers import (
        find_markers_for_all_taxonomy_pairs)
    from cell_type_mapper.taxonomy.taxonomy_tree import TaxonomyTree
    tree = TaxonomyTree.from_precomputed_stats(stats)

    def direct(out, n_processors, max_gb, stats_path=stats, tr=tree):
        with pw.quiet():
            find_markers_for_all_taxonomy_pairs(
                precomputed_stats_path=stats_path, taxonomy_tree=tr,
                output_path=out, n_processors=n_processors,
                tmp_dir=str(tmp), max_gb=max_gb,
                exact_penetrance=exact, n_valid=n_valid,
                gene_list=gene_list, **th)
    out = work / 'refm.h5'
    n_rec = 0
    try:
        direct(out, n_proc, max_gb)
        d = read_marker_file(out)
        ctx.bump('marker_files_checked')
        if d['gene_names'] != genes:
            ctx.V('C11:direct:gene-names', 'gene names / order differ from '
                  'the statistics file')
        nnz = int(len(d['sparse_by_pair/up_gene_idx']))
        if max_gb <= 1e-8 and nnz > 200:
            ctx.bump('marker_tables_over_200_entries_at_tiny_budget')
        if check_structure(ctx, 'direct', d, n_genes):
            n_rec = judge(ctx, 'direct', d, names, genes, orc, th,
                          gene_list, exact)
        # differential: worker count and budget must not matter
        out2 = work / 'refm2.h5'
        direct(out2,
               int(rng.choice([x for x in (1, 2, 3, 4) if x != n_proc])),
               float(rng.choice([1e-9, 1e-6, 1.0])) if not spec.get('big')
               else 1.0)
        ctx.bump('differential_runs_compared')
        if not same_markers(d, read_marker_file(out2)):
            ctx.V('C11:direct:depends-on-workers-or-budget', what)
        # metamorphic: reverse the alphabetical order of the leaves
        srt = sorted(names)
        ren = {a: f'{chr(ord("z") - i)}_{a}' for i, a in enumerate(srt)}
        ref_r = work / 'ref_r.h5ad'
        write_ref(ref_r, X, [ren[l] for l in labels], genes, rng)
        stats_r = work / 'stats_r.h5'
        stats_for(ref_r, stats_r, tmp)
        if zv is not None:
            engineer(stats_r, ren[zv[0]])
        out_r = work / 'refm_r.h5'
        direct(out_r, n_proc, max_gb, stats_path=stats_r,
               tr=TaxonomyTree.from_precomputed_stats(stats_r))
        dr = read_marker_file(out_r)
        for a, b in itertools.combinations(srt, 2):
            ctx.bump('rename_pairs_compared')
            up, dn = markers_of(d, d['pair_to_idx']['cluster'][a][b])
            ra, rb = sorted([ren[a], ren[b]])
            upr, dnr = markers_of(
                dr, dr['pair_to_idx']['cluster'][ra][rb])
            if (up, dn) != (dnr, upr):
                ctx.V('C11:direct:renaming-changes-more-than-direction',
                      f'pair ({a},{b}): up {sorted(up)} down {sorted(dn)}; '
                      f'renamed ({ra},{rb}): up {sorted(upr)} down '
                      f'{sorted(dnr)}')
                break
    except Exception:
        tb = traceback.format_exc()
        sig, last = oracles.exception_signature(tb)
        total_up = sum(1 for o in orc.values() for j in range(n_genes)
                       if o['n1'] >= 2 and o['n2'] >= 2)
        ctx.V(f'C11:exception[direct]:{sig}', f'{last}; {what}')
    # p-value mask route
    from cell_type_mapper.diff_exp.p_value_mask import (
        create_p_value_mask_file)
    from cell_type_mapper.diff_exp.p_value_markers import (
        find_markers_for_all_taxonomy_pairs_from_p_mask)
    try:
        mask = work / 'pmask.h5'
        with pw.quiet():
            create_p_value_mask_file(
                precomputed_stats_path=stats, dst_path=mask,
                n_processors=n_proc, tmp_dir=str(tmp),
                n_per=int(rng.choice([8, 16, 10000])), **th)

        def from_mask(out, n_processors, max_gb):
            with pw.quiet():
                find_markers_for_all_taxonomy_pairs_from_p_mask(
                    precomputed_stats_path=stats, p_value_mask_path=mask,
                    output_path=out, n_processors=n_processors,
                    tmp_dir=str(tmp), max_gb=max_gb, n_valid=n_valid,
                    gene_list=gene_list)
        outm = work / 'refm_mask.h5'
        from_mask(outm, n_proc, max_gb)
        dm = read_marker_file(outm)
        ctx.bump('pmask_files_checked')
        if check_structure(ctx, 'pmask', dm, n_genes):
            n_rec += judge(ctx, 'pmask', dm, names, genes, orc, th,
                           gene_list, exact=False)
        outm2 = work / 'refm_mask2.h5'
        from_mask(outm2,
                  int(rng.choice([x for x in (1, 2, 3, 4) if x != n_proc])),
                  float(rng.choice([1e-9, 1e-6, 1.0])) if not spec.get('big')
                  else 1.0)
        ctx.bump('differential_runs_compared')
        if not same_markers(dm, read_marker_file(outm2)):
            ctx.V('C11:pmask:depends-on-workers-or-budget', what)
    except Exception:
        tb = traceback.format_exc()
        sig, last = oracles.exception_signature(tb)
        ctx.V(f'C11:exception[pmask]:{sig}', f'{last}; {what}')
    left = [p.name for p in tmp.iterdir()]
    if left:
        ctx.V('C11:scratch-left-behind', f'{left}')
    return {'violations': ctx.viol, 'counters': ctx.counters,
            'dontcare': ctx.dontcare,
            'features': [len(names), n_genes, exact, n_valid,
                         gene_list is not None, th['p_th']],
            'nontrivial': n_rec > 0,
            'sample': {'leaves': sorted(names), 'sizes':
                       {a: int((lab == a).sum()) for a in names},
                       'thresholds': th, 'exact': exact,
                       'recorded_markers': n_rec}}
