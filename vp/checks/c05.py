"""
C05 - row access is exact for every on-disk encoding and chunking.
Monitor over the real AnnDataRowIterator (iteration, get_chunk, get_batch,
__getitem__) on files written by anndata from matrices the generator keeps
in memory, plus the consequences: identical mapping results and statistics
files for the three encodings of one matrix.
"""
import itertools
import json
import traceback

import h5py
import numpy as np
import scipy.sparse

from vp import mapcases, mapworld, oracles

PROPERTY = 'C05'
LEVEL = 'exploration'
CASE_TIMEOUT = 400
BATCH_SIZE = {'quick': 1, 'thorough': 1}
REQUIRED_COUNTERS = ['iterations_checked', 'get_batch_checked',
                     'files_with_unsorted_minor_indices',
                     'iterations_interleaved_with_random_access',
                     'csc_conversions', 'csc_multi_pass_conversions',
                     'encoding_triples_mapping', 'encoding_triples_stats']
RULE = ('case block = matrices x {dense, CSR, CSC} x {X, layer} x dtype x '
        'HDF5 chunk layout x requested chunk size x memory budget: all 0/1 '
        'patterns up to 3x3 (values = unique ids; exhaustive in the thorough '
        'tier, 3x3 sampled 1 in 4 in the quick tier), '
        'random matrices up to 400x60 with empty rows / columns, a single '
        'row, no stored non-zero at all, > 100 stored entries under a '
        'budget so small that the enforced minima are crossed several '
        'times; row lists: permutations, subsets, singletons (repeats as a '
        'separate class).  Non-trivial = matrix with >= 2 stored values; '
        'distinct = distinct (shape, nnz, encoding, dtype, layout) tuples')
ASSUMPTIONS = [
    'files are written by anndata, then optionally re-chunked with h5py',
    'the in-memory matrix handed to anndata is the ground truth',
]

DTYPES = ['float32', 'float64', 'int32', 'int64', 'uint8', 'uint16',
          'uint64', 'int16']


def gen_cases(tier, seed):
    rng = np.random.default_rng([seed, 105])
    cases = []
    # exhaustive tiny patterns, in blocks
    shapes = [(r, c) for r in (1, 2, 3) for c in (1, 2, 3)]
    for (r, c) in shapes:
        n_pat = 2 ** (r * c)
        step = 1
        if tier == 'quick' and n_pat > 64:
            step = 4                 # 3x3: every 4th pattern, rotating
        n_blocks = max(1, n_pat // (32 * step))
        per = -(-n_pat // n_blocks)
        for b in range(n_blocks):
            cases.append({'mode': 'patterns', 'rows': r, 'cols': c,
                          'start': b * per + (seed % step),
                          'stop': min(n_pat, (b + 1) * per), 'step': step,
                          'seed': int(rng.integers(2 ** 31))})
    n_rand = 16 if tier == 'quick' else 640
    for i in range(n_rand):
        cases.append({'mode': 'random', 'n': 6 if tier == 'quick' else 12,
                      'seed': int(rng.integers(2 ** 31))})
    n_e2e = 4 if tier == 'quick' else 200
    for i in range(n_e2e):
        c = mapcases.random_large_cases(rng, 1, max_leaves=10,
                                        max_cells=40)[0]
        c['mode'] = 'mapping-triple'
        cases.append(c)
    for i in range(n_e2e):
        cases.append({'mode': 'stats-triple',
                      'seed': int(rng.integers(2 ** 31))})
    return cases


def rechunk(path, layer_key, elems, rng):
    """
    rewrite the datasets of the matrix with a chosen HDF5 chunk layout;
    elems == 'oversize' gives resizable datasets whose chunk is longer than
    the data (legal HDF5: chunk > shape needs maxshape=None)
    """
    if elems == 'oversize':
        with h5py.File(path, 'a') as f:
            obj = f[layer_key]
            if isinstance(obj, h5py.Dataset):
                data = obj[()]
                attrs = dict(obj.attrs)
                del f[layer_key]
                ds = f.create_dataset(
                    layer_key, data=data,
                    maxshape=(None, None),
                    chunks=(data.shape[0] + 3, data.shape[1] + 2))
                for k, v in attrs.items():
                    ds.attrs[k] = v
            else:
                for name in ('data', 'indices', 'indptr'):
                    d = obj[name][()]
                    attrs = dict(obj[name].attrs)
                    del obj[name]
                    ds = obj.create_dataset(name, data=d, maxshape=(None,),
                                            chunks=(len(d) * 2 + 5,))
                    for k, v in attrs.items():
                        ds.attrs[k] = v
        return
    with h5py.File(path, 'a') as f:
        obj = f[layer_key]
        if isinstance(obj, h5py.Dataset):
            data = obj[()]
            attrs = dict(obj.attrs)
            del f[layer_key]
            if data.size == 0:
                ds = f.create_dataset(layer_key, data=data)
            else:
                cr = int(max(1, min(data.shape[0], elems)))
                cc = int(max(1, min(data.shape[1],
                                    max(1, elems // cr))))
                ds = f.create_dataset(layer_key, data=data, chunks=(cr, cc))
            for k, v in attrs.items():
                ds.attrs[k] = v
        else:
            for name in ('data', 'indices', 'indptr'):
                d = obj[name][()]
                attrs = dict(obj[name].attrs)
                del obj[name]
                if d.size == 0:
                    ds = obj.create_dataset(name, data=d)
                else:
                    ds = obj.create_dataset(
                        name, data=d,
                        chunks=(int(max(1, min(len(d), elems))),))
                for k, v in attrs.items():
                    ds.attrs[k] = v


class Ctx(object):
    def __init__(self):
        self.viol = []
        self.counters = {}
        self.features = set()

    def bump(self, k, n=1):
        self.counters[k] = self.counters.get(k, 0) + n

    def V(self, sig, msg):
        if len(self.viol) < 10:
            self.viol.append({'sig': sig, 'msg': msg[:1500]})


def describe(M, enc, layer, dtype, chunk, max_gb, layout):
    return (f'matrix {M.shape} nnz={int((M != 0).sum())} dtype={dtype} '
            f'encoding={enc} layer={layer} row_chunk={chunk} '
            f'max_gb={max_gb} hdf5_chunk_elems={layout} '
            f'M={M.tolist() if M.size <= 36 else "..."}')


def check_iterator(ctx, M, enc, layer, dtype, work, rng, chunk_sizes,
                   max_gb, layout, tag):
    from cell_type_mapper.anndata_iterator.anndata_iterator import (
        AnnDataRowIterator)
    n_rows, n_cols = M.shape
    path = work / 'm.h5ad'
    if path.exists():
        path.unlink()
    # sparse encodings: every other file stores the minor indices of each
    # major slice in shuffled order (valid, non-canonical CSR / CSC)
    unsorted = None
    if enc in ('csr', 'csc') and rng.random() < 0.5:
        unsorted = int(rng.integers(1, 2 ** 31))
        ctx.bump('files_with_unsorted_minor_indices')
    mapworld.write_h5ad(path, M, [f'c{i}' for i in range(n_rows)],
                        [f'g{j}' for j in range(n_cols)], encoding=enc,
                        layer=layer, unsorted_indices=unsorted)
    layer_key = 'X' if layer is None else f'layers/{layer}'
    if layout is not None:
        rechunk(path, layer_key, layout, rng)
    scratch = work / 'scratch'
    scratch.mkdir(exist_ok=True)
    nnz = int((M != 0).sum())
    ctx.features.add((M.shape, min(nnz, 200), enc, dtype,
                      layout is not None, layer is not None,
                      unsorted is not None))
    for chunk in chunk_sizes:
        what = describe(M, enc, layer, dtype, chunk, max_gb, layout) + \
            (' minor indices unsorted' if unsorted is not None else '')
        try:
            it = AnnDataRowIterator(
                h5ad_path=path, row_chunk_size=chunk,
                layer='X' if layer is None else layer,
                tmp_dir=str(scratch), max_gb=max_gb)
            if enc == 'csc':
                ctx.bump('csc_conversions')
                if nnz > 100 and max_gb < 1e-6:
                    ctx.bump('csc_multi_pass_conversions')
            got = []
            expect_r0 = 0
            for (blk, r0, r1) in it:
                if r0 != expect_r0 or r1 <= r0 or r1 - r0 > chunk or \
                        (r1 - r0 != chunk and r1 != n_rows):
                    ctx.V(f'C05:{tag}:chunk-bounds',
                          f'chunk ({r0},{r1}) after {expect_r0}; {what}')
                    break
                expect_r0 = r1
                got.append(np.asarray(blk))
            if expect_r0 != n_rows:
                ctx.V(f'C05:{tag}:rows-not-covered',
                      f'iteration ended at row {expect_r0}; {what}')
                continue
            full = np.vstack(got) if got else np.zeros((0, n_cols))
            ctx.bump('iterations_checked')
            if full.shape != M.shape or not np.array_equal(full, M):
                ctx.V(f'C05:{tag}:wrong-values',
                      f'iterated matrix {full.tolist() if full.size <= 36 else full.shape} '
                      f'differs; {what}')
                continue
            if full.dtype != M.dtype:
                ctx.V(f'C05:{tag}:dtype',
                      f'yielded {full.dtype}, stored {M.dtype}; {what}')
            # random access in the middle of an iteration must not disturb
            # it: iterate a fresh iterator, peeking at other rows with
            # get_chunk / get_batch / [] after every chunk it yields
            it2 = AnnDataRowIterator(
                h5ad_path=path, row_chunk_size=chunk,
                layer='X' if layer is None else layer,
                tmp_dir=str(scratch), max_gb=max_gb)
            want_r0 = 0
            ok_inter = True
            for (blk, r0, r1) in it2:
                if r0 != want_r0 or not np.array_equal(np.asarray(blk),
                                                       M[r0:r1]):
                    ok_inter = False
                    break
                want_r0 = r1
                a = int(rng.integers(0, n_rows))
                b = int(rng.integers(a + 1, n_rows + 1))
                it2.get_chunk(a, b)
                it2.get_batch([int(rng.integers(n_rows))], sparse=False)
                it2[int(rng.integers(n_rows))]
            ctx.bump('iterations_interleaved_with_random_access')
            if not ok_inter or want_r0 != n_rows:
                ctx.V(f'C05:{tag}:iteration-disturbed-by-random-access',
                      f'after random access the iteration continued at row '
                      f'{r0 if not ok_inter else want_r0} instead of '
                      f'{want_r0 if not ok_inter else n_rows}; {what}')
            del it2
            # get_chunk on random ranges
            for _ in range(3):
                a = int(rng.integers(0, n_rows))
                b = int(rng.integers(a + 1, n_rows + 1))
                blk, r0, r1 = it.get_chunk(a, b)
                ctx.bump('get_chunk_checked')
                if (r0, r1) != (a, b) or not np.array_equal(blk, M[a:b]):
                    ctx.V(f'C05:{tag}:get_chunk',
                          f'get_chunk({a},{b}) wrong; {what}')
            # __getitem__ with an int and with a contiguous list
            a = int(rng.integers(0, n_rows))
            blk, r0, r1 = it[a]
            if (r0, r1) != (a, a + 1) or not np.array_equal(blk, M[a:a + 1]):
                ctx.V(f'C05:{tag}:getitem', f'it[{a}] wrong; {what}')
            b = int(rng.integers(a + 1, n_rows + 1))
            blk, r0, r1 = it[list(range(a, b))]
            if (r0, r1) != (a, b) or not np.array_equal(blk, M[a:b]):
                ctx.V(f'C05:{tag}:getitem-list',
                      f'it[{a}..{b}] wrong; {what}')
            # get_batch on row lists without repeats
            lists = [list(rng.permutation(n_rows)),
                     [int(rng.integers(n_rows))]]
            k = int(rng.integers(1, n_rows + 1))
            lists.append(list(rng.choice(n_rows, size=k, replace=False)))
            for rows in lists:
                rows = [int(x) for x in rows]
                for sparse in (False, True):
                    res = it.get_batch(rows, sparse=sparse)
                    ctx.bump('get_batch_checked')
                    if sparse:
                        if not scipy.sparse.issparse(res):
                            ctx.V(f'C05:{tag}:get_batch-not-sparse', what)
                            continue
                        res = res.toarray()
                    if not np.array_equal(np.asarray(res), M[rows]):
                        ctx.V(f'C05:{tag}:get_batch',
                              f'get_batch({rows}, sparse={sparse}) wrong; '
                              f'{what}')
            # separate class: row lists with repeats
            rep_lists = []
            if n_rows >= 1:
                rep_lists.append([int(x) for x in rng.integers(
                    0, n_rows, size=n_rows + 1)])
                rep_lists.append([int(x) for x in rng.integers(
                    0, n_rows, size=int(rng.integers(2, n_rows + 3)))])
            if n_rows >= 3:
                # repeats that exactly fill the gaps of a span: the list
                # is as long as max-min+1 but does not cover the span
                a = int(rng.integers(0, n_rows - 2))
                b = int(rng.integers(a + 2, n_rows))
                inner = [r for r in range(a + 1, b) if rng.random() < 0.5]
                missing = (b - a - 1) - len(inner)
                if missing > 0:
                    base = [a, b] + inner
                    lst = base + [base[int(rng.integers(len(base)))]
                                  for _ in range(missing)]
                    rng.shuffle(lst)
                    rep_lists.append([int(x) for x in lst])
            for rows in rep_lists:
                try:
                    res = it.get_batch(rows, sparse=False)
                    ctx.bump('get_batch_repeats_checked')
                    if not np.array_equal(np.asarray(res), M[rows]):
                        ctx.V(f'C05:{tag}:get_batch-repeats-wrong-values',
                              f'get_batch({rows}) wrong; {what}')
                except Exception:
                    tb = traceback.format_exc()
                    sig, last = oracles.exception_signature(tb)
                    kind = 'csr' if enc in ('csr', 'csc') else 'dense'
                    ctx.V(f'C05:get_batch-repeated-row-raises[{kind}]',
                          f'get_batch({rows}) raised {last}; {what}')
            del it
        except Exception:
            tb = traceback.format_exc()
            sig, last = oracles.exception_signature(tb)
            cls = 'no-stored-value' if nnz == 0 else 'stored-values'
            ctx.V(f'C05:exception[{enc},{cls}]:{sig}',
                  f'{last}; {what}')
    leftovers = list(scratch.iterdir())
    import gc
    gc.collect()
    leftovers = list(scratch.iterdir())
    if leftovers:
        ctx.V('C05:scratch-left-behind',
              f'{[p.name for p in leftovers]} after the iterator was '
              f'deleted')
        for p in leftovers:
            import shutil
            shutil.rmtree(p, ignore_errors=True)


def id_matrix(pattern, dtype, rng):
    """0/1 pattern -> stored values are unique ids"""
    M = np.zeros(pattern.shape, dtype=dtype)
    ids = np.arange(1, pattern.size + 1).reshape(pattern.shape)
    if np.dtype(dtype).kind == 'f':
        vals = ids + 0.5
    else:
        vals = ids
    M[pattern > 0] = vals[pattern > 0].astype(dtype)
    return M


def run_patterns(spec, work, ctx):
    rng = np.random.default_rng(spec['seed'])
    r, c = spec['rows'], spec['cols']
    for code in range(spec['start'], spec['stop'], spec['step']):
        bits = [(code >> k) & 1 for k in range(r * c)]
        pattern = np.array(bits).reshape(r, c)
        dtype = DTYPES[int(rng.integers(len(DTYPES)))]
        M = id_matrix(pattern, dtype, rng)
        for enc in ('dense', 'csr', 'csc'):
            layer = None if rng.random() < 0.7 else 'lyr'
            layout = None if rng.random() < 0.5 else int(rng.integers(1, 4))
            if rng.random() < 0.1:
                layout = 'oversize'
            check_iterator(ctx, M, enc, layer, dtype, work, rng,
                           list(range(1, r + 2)),
                           max_gb=float(rng.choice([1e-9, 1.0])),
                           layout=layout, tag='pattern')
        if len(ctx.viol) >= 10:
            break


def random_matrix(rng):
    kind = int(rng.integers(0, 7))
    if kind == 0:       # single row
        shape = (1, int(rng.integers(1, 60)))
    elif kind == 1:     # > 100 stored entries, to cross the minima
        shape = (int(rng.integers(30, 400)), int(rng.integers(10, 60)))
    else:
        shape = (int(rng.integers(1, 60)), int(rng.integers(1, 40)))
    density = float(rng.choice([0.0, 0.02, 0.1, 0.3, 0.7, 1.0]))
    if kind == 1:
        density = max(density, 0.3)
    dtype = DTYPES[int(rng.integers(len(DTYPES)))]
    mask = rng.random(shape) < density
    if rng.random() < 0.5 and shape[0] > 1:
        mask[int(rng.integers(shape[0]))] = False       # empty row
    if rng.random() < 0.5 and shape[1] > 1:
        mask[:, int(rng.integers(shape[1]))] = False    # empty column
    hi = {'uint8': 255, 'uint16': 65535, 'int16': 32767}.get(dtype, 100000)
    vals = rng.integers(1, hi + 1, size=shape)
    M = np.zeros(shape, dtype=dtype)
    if np.dtype(dtype).kind == 'f':
        M[mask] = (vals[mask] + rng.random(int(mask.sum()))).astype(dtype)
    else:
        M[mask] = vals[mask].astype(dtype)
    if rng.random() < 0.4 and mask.any():
        # values at the edges of the stored type: they survive only if no
        # step of the read path goes through another numeric type
        dt = np.dtype(dtype)
        if dt.kind == 'f':
            fi = np.finfo(dt)
            ext = [fi.max, -fi.max, fi.tiny, fi.smallest_subnormal,
                   1.0 + fi.eps, -(1.0 + fi.eps), 1.0 / 3.0]
        else:
            ii = np.iinfo(dt)
            ext = [ii.max, ii.max - 1, ii.min, ii.min + 1]
            if dt.itemsize == 8:
                ext += [2 ** 53 + 1, 2 ** 62 + 12345]
                if dt.kind == 'i':
                    ext += [-(2 ** 53) - 1]
            if dt.itemsize >= 4:
                ext += [2 ** 24 + 1]
            ext = [e for e in ext if e != 0]
        rr, cc = np.where(mask)
        for e in ext:
            k = int(rng.integers(len(rr)))
            M[rr[k], cc[k]] = np.array([e]).astype(dt)[0]
    return M, dtype


def run_random(spec, work, ctx):
    rng = np.random.default_rng(spec['seed'])
    for _ in range(spec['n']):
        M, dtype = random_matrix(rng)
        n = M.shape[0]
        for enc in ('dense', 'csr', 'csc'):
            layer = None if rng.random() < 0.7 else 'some_layer'
            layout = None if rng.random() < 0.4 else int(
                rng.choice([1, 2, 7, 64, 1000]))
            if rng.random() < 0.12:
                layout = 'oversize'
            chunks = sorted({1, int(rng.integers(1, n + 1)), n, n + 3})
            if n > 50:
                chunks = [int(rng.integers(1, n + 1)), n + 3]
            check_iterator(ctx, M, enc, layer, dtype, work, rng, chunks,
                           max_gb=float(rng.choice([1e-9, 1e-7, 1.0])),
                           layout=layout, tag='random')
        if len(ctx.viol) >= 10:
            break


def run_mapping_triple(spec, work, ctx):
    spec = dict(spec)
    spec['encoding'] = 'dense'
    w = mapworld.build_world(spec, work)
    if spec['seed'] % 4 == 0:
        # a query with no stored non-zero at all
        w.Xq = np.zeros_like(w.Xq)
        ctx.bump('all_zero_query_triples')
    outs = {}
    for enc in ('dense', 'csr', 'csc'):
        wd = mapworld.derive_world(w, enc, encoding=enc, Xq=w.Xq)
        r = mapworld.run_world(wd, trace=False)
        if r['exception'] is not None:
            sig, last = oracles.exception_signature(r['traceback'],
                                                    r.get('stderr'))
            ctx.V(f'C05:mapping-raises[{enc}]:{sig}', last)
            return
        outs[enc] = mapworld.strip_volatile(r['json'])
    ctx.bump('encoding_triples_mapping')
    ctx.features.add(('mapping-triple', spec['n_cells'], spec['n_genes'],
                      spec['normalization']))
    # the same for an invalid matrix: raw counts with one negative entry
    # are refused in every encoding and HDF5 layout, or in none
    rng = np.random.default_rng(spec['seed'] + 5)
    Xn = w.Xq.astype(np.float64).copy()
    Xn[int(rng.integers(Xn.shape[0])), Xn.shape[1] - 1] = -3.0
    verdicts = {}
    for enc, lay in (('dense', None), ('dense', 'cols'), ('dense', 'small'),
                     ('dense', 'gzip'), ('csr', None), ('csc', None)):
        wd = mapworld.derive_world(w, f'neg_{enc}_{lay}', encoding=enc,
                                   Xq=Xn, normalization='raw',
                                   h5_layout=lay)
        r = mapworld.run_world(wd, trace=False)
        verdicts[f'{enc}/{lay}'] = r['exception'] is not None
    ctx.bump('negative_value_layout_sets')
    if len(set(verdicts.values())) != 1:
        ctx.V('C05:mapping-differs-across-encodings',
              f'a matrix with one negative raw count is refused in some '
              f'encodings / layouts only: {verdicts}')
    for enc in ('csr', 'csc'):
        if outs[enc] != outs['dense']:
            ctx.V('C05:mapping-differs-across-encodings',
                  f'{enc} vs dense results differ')


def run_stats_triple(spec, work, ctx):
    from cell_type_mapper.diff_exp.precompute_from_anndata import (
        precompute_summary_stats_from_h5ad)
    rng = np.random.default_rng(spec['seed'])
    n_cells = int(rng.integers(4, 60))
    n_genes = int(rng.integers(3, 30))
    raw = bool(rng.random() < 0.6)
    if raw:
        X = np.floor(rng.uniform(0, 300, size=(n_cells, n_genes)))
    else:
        X = rng.uniform(0, 12, size=(n_cells, n_genes))
    X[rng.random(X.shape) < 0.4] = 0
    labels = [f'cl{int(rng.integers(0, 5))}' for _ in range(n_cells)]
    classes = [f'K{int(l[2:]) % 2}' for l in labels]
    files = {}
    outs = {}
    rows_at_a_time = int(rng.integers(1, n_cells + 2))
    n_proc = int(rng.integers(1, 4))
    for enc in ('dense', 'csr', 'csc'):
        p = work / f'ref_{enc}.h5ad'
        mapworld.write_h5ad(p, X, [f'c{i}' for i in range(n_cells)],
                            [f'g{j}' for j in range(n_genes)], encoding=enc,
                            obs_extra={'klass': classes, 'cluster': labels})
        out = work / f'stats_{enc}.h5'
        (work / f'tmp_{enc}').mkdir()
        try:
            precompute_summary_stats_from_h5ad(
                data_path=p, column_hierarchy=['klass', 'cluster'],
                taxonomy_tree=None, output_path=out,
                rows_at_a_time=rows_at_a_time,
                normalization='raw' if raw else 'log2CPM',
                tmp_dir=str(work / f'tmp_{enc}'), n_processors=n_proc)
        except Exception:
            tb = traceback.format_exc()
            sig, last = oracles.exception_signature(tb)
            ctx.V(f'C05:stats-raises[{enc}]:{sig}', last)
            return
        with h5py.File(out, 'r') as f:
            outs[enc] = {k: f[k][()] for k in
                         ('n_cells', 'sum', 'sumsq', 'gt0', 'gt1', 'ge1')}
            outs[enc]['c2r'] = f['cluster_to_row'][()]
            outs[enc]['cols'] = f['col_names'][()]
    ctx.bump('encoding_triples_stats')
    ctx.features.add(('stats-triple', n_cells, n_genes, raw))
    for enc in ('csr', 'csc'):
        for k in outs['dense']:
            a, b = outs['dense'][k], outs[enc][k]
            same = (a == b) if isinstance(a, bytes) else np.array_equal(a, b)
            if not same:
                ctx.V('C05:stats-differ-across-encodings',
                      f'dataset {k}: {enc} vs dense')
                break


def run_case(spec, work):
    ctx = Ctx()
    mode = spec['mode']
    if mode == 'patterns':
        run_patterns(spec, work, ctx)
    elif mode == 'random':
        run_random(spec, work, ctx)
    elif mode == 'mapping-triple':
        run_mapping_triple(spec, work, ctx)
    else:
        run_stats_triple(spec, work, ctx)
    feats = sorted(ctx.features, key=str)
    return {'violations': ctx.viol, 'counters': ctx.counters,
            'features': feats[:20], 'distinct_list': [str(f) for f in feats],
            'nontrivial': True,
            'sample': {'mode': mode,
                       'example': str(feats[0]) if feats else None}}


def distinct_count(results):
    s = set()
    for r in results:
        for f in r.get('distinct_list') or []:
            s.add(f)
    return len(s)
