"""
C13 - on-disk sparse transposition and reshaping preserve the matrix.
Reference-model monitor: the real on-disk routines run on matrices whose
stored values are unique ids; outputs are compared with scipy's transpose /
the same operation done in memory.
"""
import json
import traceback

import anndata
import h5py
import numpy as np
import pandas as pd
import scipy.sparse

from vp import mapworld, oracles

PROPERTY = 'C13'
LEVEL = 'exploration'
CASE_TIMEOUT = 900
BATCH_SIZE = {'quick': 1, 'thorough': 1}
REQUIRED_COUNTERS = ['serial_transposes', 'parallel_transposes',
                     'slice_transposes', 'no_data_transposes',
                     'file_ops_checked', 'multi_pass_transposes',
                     'matrices_with_an_axis_beyond_uint8_and_few_entries',
                     'matrices_with_an_axis_beyond_uint16',
                     'chunked_dense_layer_copies']
EXHAUSTIVE = {'quick': False, 'thorough': True}
RULE = ('core routines (transpose_sparse_matrix_on_disk with / without '
        'value array and every indices_slice sub-range, csc_to_csr_on_disk, '
        'transpose_by_way_of_disk, transpose_sparse_matrix_on_disk_v2 with '
        '1-4 workers, uint_ok both ways) on every 0/1 pattern with r, c <= 4 '
        '(thorough: all 65 536 4x4 patterns + all smaller shapes; quick: '
        'all shapes up to 3x3 + a seeded sample of 4x4) and on random '
        'matrices up to 300x300 (empty slices, a single entry, fully dense, '
        '> 100 entries under a 1e-9 GB budget); file-level operations on '
        'random matrices, incl. layer copies from dense layers in every '
        'chunk layout.  Values are unique ids.  Non-trivial = >= 2 '
        'stored entries; distinct = distinct (shape, pattern / nnz, '
        'routine) tuples')
ASSUMPTIONS = [
    'scipy.sparse transpose in canonical form is the reference',
    'files read back with anndata.read_h5ad / raw h5py',
]


def gen_cases(tier, seed):
    rng = np.random.default_rng([seed, 113])
    cases = []
    shapes = [(r, c) for r in range(1, 5) for c in range(1, 5)]
    for (r, c) in shapes:
        n_pat = 2 ** (r * c)
        if (r, c) == (4, 4):
            if tier == 'thorough':
                per = 1024
                for s in range(0, n_pat, per):
                    cases.append({'mode': 'patterns', 'rows': r, 'cols': c,
                                  'codes': [s, s + per, 1],
                                  'seed': int(rng.integers(2 ** 31))})
            else:
                sample = sorted(int(x) for x in rng.choice(
                    n_pat, size=640, replace=False))
                for s in range(0, len(sample), 80):
                    cases.append({'mode': 'patterns', 'rows': r, 'cols': c,
                                  'code_list': sample[s:s + 80],
                                  'seed': int(rng.integers(2 ** 31))})
        elif n_pat > 512:
            if tier == 'thorough':
                per = 512
                for s in range(0, n_pat, per):
                    cases.append({'mode': 'patterns', 'rows': r, 'cols': c,
                                  'codes': [s, min(n_pat, s + per), 1],
                                  'seed': int(rng.integers(2 ** 31))})
            else:
                sample = sorted(int(x) for x in rng.choice(
                    n_pat, size=96, replace=False))
                cases.append({'mode': 'patterns', 'rows': r, 'cols': c,
                              'code_list': sample,
                              'seed': int(rng.integers(2 ** 31))})
        else:
            cases.append({'mode': 'patterns', 'rows': r, 'cols': c,
                          'codes': [0, n_pat, 1],
                          'seed': int(rng.integers(2 ** 31))})
    n_rand = 16 if tier == 'quick' else 200
    for i in range(n_rand):
        cases.append({'mode': 'random', 'n': 5,
                      'seed': int(rng.integers(2 ** 31))})
    n_file = 16 if tier == 'quick' else 200
    for i in range(n_file):
        cases.append({'mode': 'fileops', 'n': 3,
                      'seed': int(rng.integers(2 ** 31))})
    return cases


class Ctx(object):
    def __init__(self):
        self.viol = []
        self.counters = {}
        self.features = set()

    def bump(self, k, n=1):
        self.counters[k] = self.counters.get(k, 0) + n

    def V(self, sig, msg):
        if len(self.viol) < 10:
            self.viol.append({'sig': sig, 'msg': msg[:1500]})


def write_sparse_h5(path, S, with_data=True, shuffle_minor=None):
    """S: scipy csr (major = rows).  Writes indptr / indices / data."""
    indptr = S.indptr.copy()
    indices = S.indices.copy()
    data = S.data.copy()
    if shuffle_minor is not None:
        for i in range(len(indptr) - 1):
            a, b = indptr[i], indptr[i + 1]
            p = shuffle_minor.permutation(b - a)
            indices[a:b] = indices[a:b][p]
            data[a:b] = data[a:b][p]
    with h5py.File(path, 'w') as f:
        f.create_dataset('indptr', data=indptr)
        if len(indices) > 0:
            f.create_dataset('indices', data=indices,
                             chunks=(min(len(indices), 7),))
            if with_data:
                f.create_dataset('data', data=data,
                                 chunks=(min(len(data), 5),))
        else:
            f.create_dataset('indices', data=indices)
            if with_data:
                f.create_dataset('data', data=data)


def compare_transpose(ctx, tag, M, out, has_data, what, col_slice=None,
                      arrays=None):
    """out: path of an h5 file with indptr / indices [/ data]"""
    if col_slice is not None:
        sub = M[:, col_slice[0]:col_slice[1]]
    else:
        sub = M
    T = scipy.sparse.csr_matrix(sub.T)
    T.sort_indices()
    if arrays is None:
        with h5py.File(out, 'r') as f:
            indptr = f['indptr'][()]
            indices = f['indices'][()]
            data = f['data'][()] if has_data else None
    else:
        indptr, indices, data = arrays
    nnz = T.nnz
    cls = 'no-stored-value' if M.sum() == 0 else 'stored-values'
    if len(indptr) != T.shape[0] + 1 or \
            not np.array_equal(indptr.astype(np.int64),
                               T.indptr.astype(np.int64)):
        ctx.V(f'C13:{tag}:indptr',
              f'indptr {indptr.tolist()[:20]} vs '
              f'{T.indptr.tolist()[:20]}; {what}')
        return False
    if np.any(np.diff(indptr.astype(np.int64)) < 0) or \
            int(indptr[-1]) != nnz:
        ctx.V(f'C13:{tag}:indptr-not-monotone', what)
        return False
    if len(indices) != nnz or \
            not np.array_equal(indices.astype(np.int64),
                               T.indices.astype(np.int64)):
        ctx.V(f'C13:{tag}:indices',
              f'indices {indices.tolist()[:20]} vs '
              f'{T.indices.tolist()[:20]}; {what}')
        return False
    if has_data:
        if data is None or len(data) != nnz or \
                not np.array_equal(data, T.data):
            ctx.V(f'C13:{tag}:data',
                  f'data {None if data is None else data.tolist()[:20]} vs '
                  f'{T.data.tolist()[:20]}; {what}')
            return False
        if data.dtype != M.dtype:
            ctx.V(f'C13:{tag}:data-dtype',
                  f'{data.dtype} vs {M.dtype}; {what}')
    return True


def guarded(ctx, tag, M, what, fn):
    try:
        fn()
        return True
    except Exception:
        tb = traceback.format_exc()
        sig, last = oracles.exception_signature(tb)
        nnz = int((M != 0).sum())
        if nnz == 0:
            cls = 'no-stored-value'
        elif nnz < M.shape[1] + 1:
            cls = 'fewer-entries-than-minor-dim'
        else:
            cls = 'stored-values'
        ctx.V(f'C13:{tag}:exception[{cls}]:{sig}', f'{last}; {what}')
        return False


def run_core(ctx, M, work, rng, budgets, all_slices, shuffle=False,
             do_parallel=True):
    """M dense ndarray (values unique ids); treated as CSR, major = rows"""
    from cell_type_mapper.utils.csc_to_csr import (
        transpose_sparse_matrix_on_disk, csc_to_csr_on_disk,
        transpose_by_way_of_disk)
    from cell_type_mapper.utils.csc_to_csr_parallel import (
        transpose_sparse_matrix_on_disk_v2)
    S = scipy.sparse.csr_matrix(M)
    S.sort_indices()
    n_major, n_minor = M.shape
    nnz = S.nnz
    src = work / 'src.h5'
    write_sparse_h5(src, S, with_data=True,
                    shuffle_minor=rng if shuffle else None)
    out = work / 'out.h5'
    scratch = work / 'scr'
    scratch.mkdir(exist_ok=True)
    desc = (f'matrix {M.shape} nnz={nnz} dtype={M.dtype} '
            f'M={M.tolist() if M.size <= 16 else "..."}')
    for max_gb in budgets:
        multi = nnz > 100 and max_gb < 1e-6
        # serial, with data
        what = f'{desc} max_gb={max_gb}'

        def serial(with_data=True, sl=None):
            if out.exists():
                out.unlink()
            with h5py.File(src, 'r') as f:
                transpose_sparse_matrix_on_disk(
                    indices_handle=f['indices'],
                    indptr_handle=f['indptr'],
                    data_handle=f['data'] if with_data else None,
                    indices_max=n_minor,
                    max_gb=max_gb,
                    output_path=out,
                    verbose=False,
                    indices_slice=sl)
        if guarded(ctx, 'serial', M, what, serial):
            compare_transpose(ctx, 'serial', M, out, True, what)
            ctx.bump('serial_transposes')
            if multi:
                ctx.bump('multi_pass_transposes')
        if guarded(ctx, 'serial-no-data', M, what,
                   lambda: serial(with_data=False)):
            compare_transpose(ctx, 'serial-no-data', M, out, False, what)
            ctx.bump('no_data_transposes')
        # sub-ranges of the minor axis
        if all_slices:
            slices = [(a, b) for a in range(n_minor)
                      for b in range(a + 1, n_minor + 1)]
        else:
            a = int(rng.integers(0, n_minor))
            b = int(rng.integers(a + 1, n_minor + 1))
            slices = [(a, b), (0, n_minor)]
        for sl in slices:
            w2 = f'{what} indices_slice={sl}'
            wd = bool(rng.random() < 0.5)
            if guarded(ctx, 'slice', M, w2,
                       lambda: serial(with_data=wd, sl=sl)):
                compare_transpose(ctx, 'slice', M, out, wd, w2,
                                  col_slice=sl)
                ctx.bump('slice_transposes')
    # csc_to_csr_on_disk: treat (indptr, indices) as a CSC group of the
    # matrix M.T (n_minor x n_major): its CSR is the transpose
    what = f'{desc} csc_to_csr_on_disk'
    max_gb = float(rng.choice(budgets))

    def c2c(use_data=True):
        if out.exists():
            out.unlink()
        with h5py.File(src, 'r') as f:
            csc_to_csr_on_disk(csc_group=f, csr_path=out,
                               array_shape=(n_minor, n_major),
                               max_gb=max_gb, use_data_array=use_data)
    ud = bool(rng.random() < 0.7)
    if guarded(ctx, 'csc_to_csr_on_disk', M, what, lambda: c2c(ud)):
        compare_transpose(ctx, 'csc_to_csr_on_disk', M, out, ud, what)
        ctx.bump('csc_to_csr_calls')
    # transpose_by_way_of_disk
    res = {}

    def byway():
        res['v'] = transpose_by_way_of_disk(
            indices=S.indices, indptr=S.indptr, indices_max=n_minor,
            max_gb=max_gb, tmp_dir=str(scratch))
    what = f'{desc} transpose_by_way_of_disk'
    if guarded(ctx, 'by_way_of_disk', M, what, byway):
        ip, ix = res['v']
        compare_transpose(ctx, 'by_way_of_disk', M, None, False, what,
                          arrays=(ip, ix, None))
        ctx.bump('by_way_of_disk_calls')
    # parallel
    if do_parallel:
        n_proc = int(rng.integers(1, 5))
        uint_ok = bool(rng.random() < 0.5)
        with_data = bool(rng.random() < 0.7)
        what = (f'{desc} v2 n_processors={n_proc} uint_ok={uint_ok} '
                f'with_data={with_data} max_gb={max_gb}')

        def par():
            if out.exists():
                out.unlink()
            import contextlib
            import io
            with contextlib.redirect_stdout(io.StringIO()):
                transpose_sparse_matrix_on_disk_v2(
                    h5_path=src, indices_tag='indices',
                    indptr_tag='indptr',
                    data_tag='data' if with_data else None,
                    indices_max=n_minor, max_gb=max(max_gb, 1e-9),
                    output_path=out, output_mode='w', verbose=False,
                    tmp_dir=str(scratch), n_processors=n_proc,
                    uint_ok=uint_ok)
        if guarded(ctx, 'parallel', M, what, par):
            ok = compare_transpose(ctx, 'parallel', M, out, with_data, what)
            ctx.bump('parallel_transposes')
            if ok and not uint_ok:
                with h5py.File(out, 'r') as f:
                    dt = (f['indices'].dtype, f['indptr'].dtype)
                if dt[0] != dt[1] or dt[0] not in (np.int32, np.int64):
                    ctx.V('C13:parallel:index-dtype',
                          f'{dt} with uint_ok=False; {what}')
    left = [p.name for p in scratch.iterdir()]
    if left:
        ctx.V('C13:scratch-left-behind', f'{left}; {desc}')
        import shutil
        for p in scratch.iterdir():
            shutil.rmtree(p, ignore_errors=True)


def id_matrix(pattern, dtype):
    ids = np.arange(1, pattern.size + 1).reshape(pattern.shape)
    M = np.zeros(pattern.shape, dtype=dtype)
    M[pattern > 0] = ids[pattern > 0].astype(dtype)
    return M


def run_patterns(spec, work, ctx):
    rng = np.random.default_rng(spec['seed'])
    r, c = spec['rows'], spec['cols']
    if 'code_list' in spec:
        codes = spec['code_list']
    else:
        codes = range(*spec['codes'])
    for code in codes:
        bits = [(code >> k) & 1 for k in range(r * c)]
        pattern = np.array(bits).reshape(r, c)
        dtype = ['float32', 'float64', 'int32', 'uint16'][code % 4]
        M = id_matrix(pattern, dtype)
        ctx.features.add((r, c, code))
        run_core(ctx, M, work, rng, budgets=[1e-9 if code % 2 else 1.0],
                 all_slices=True, do_parallel=True)
        if len(ctx.viol) >= 10:
            break


def boundary_sparse(rng):
    """
    tall / wide, very sparse matrices whose axis lengths straddle the
    unsigned 8 and 16 bit limits while the number of stored entries and the
    other axis stay below them (index arrays sized from the wrong quantity
    would saturate)
    """
    big = int(rng.choice([256, 257, 300, 400, 65536, 65537, 65600]))
    small = int(rng.integers(2, 41 if big < 1000 else 6))
    nnz = int(rng.integers(1, 200 if big < 1000 else 120))
    rows = rng.integers(0, big, size=nnz)
    rows[0] = big - 1                     # an entry beyond the limit
    if nnz > 1:
        rows[1] = int(rng.integers(max(0, big - 40), big))
    cols = rng.integers(0, small, size=nnz)
    dtype = str(rng.choice(['float32', 'float64', 'int32', 'int64']))
    M = np.zeros((big, small), dtype=dtype)
    M[rows, cols] = (np.arange(1, nnz + 1)).astype(dtype)
    if rng.random() < 0.5:
        M = np.ascontiguousarray(M.T)
    return M


def random_sparse(rng, max_dim=300):
    kind = int(rng.integers(0, 8))
    if kind >= 6:
        return boundary_sparse(rng)
    shape = (int(rng.integers(1, max_dim + 1)),
             int(rng.integers(1, max_dim + 1)))
    if kind == 0:
        density = 1.0
        shape = (int(rng.integers(1, 40)), int(rng.integers(1, 40)))
    elif kind == 1:
        density = 0.0
    else:
        density = float(rng.choice([0.002, 0.01, 0.05, 0.2]))
    mask = rng.random(shape) < density
    if kind == 1:
        mask[int(rng.integers(shape[0])), int(rng.integers(shape[1]))] = True
    if kind == 2:
        # at least 100 entries so that the enforced minima are crossed
        while mask.sum() <= 100:
            mask |= rng.random(shape) < 0.05
            if mask.size <= 100:
                shape = (40, 40)
                mask = rng.random(shape) < 0.3
    if shape[0] > 2 and rng.random() < 0.5:
        mask[int(rng.integers(shape[0]))] = False
    if shape[1] > 2 and rng.random() < 0.5:
        mask[:, int(rng.integers(shape[1]))] = False
    dtype = str(rng.choice(['float32', 'float64', 'int32', 'int64',
                            'uint64']))
    ids = np.arange(1, mask.size + 1).reshape(shape)
    M = np.zeros(shape, dtype=dtype)
    M[mask] = ids[mask].astype(dtype)
    if mask.any() and rng.random() < 0.5:
        # stored values at the edges of the type: they survive only if no
        # step of the transposition passes through another numeric type
        dt = np.dtype(dtype)
        if dt.kind == 'f':
            fi = np.finfo(dt)
            ext = [fi.max, -fi.max, fi.tiny, 1.0 + fi.eps, 1.0 / 3.0]
        else:
            ii = np.iinfo(dt)
            ext = [ii.max, ii.max - 1] + ([ii.min + 1] if ii.min < 0 else [])
            if dt.itemsize == 8:
                ext += [2 ** 53 + 1, 2 ** 53 + 5, 2 ** 62 + 12345]
            else:
                ext += [2 ** 24 + 1]
        rr, cc = np.where(mask)
        for e in ext:
            k = int(rng.integers(len(rr)))
            M[rr[k], cc[k]] = np.array([e]).astype(dt)[0]
    return M


def run_random(spec, work, ctx):
    rng = np.random.default_rng(spec['seed'])
    for _ in range(spec['n']):
        M = random_sparse(rng)
        ctx.features.add((M.shape, int((M != 0).sum()), 'random'))
        if max(M.shape) > 255 and int((M != 0).sum()) <= 255 and \
                min(M.shape) < 255:
            ctx.bump('matrices_with_an_axis_beyond_uint8_and_few_entries')
        if max(M.shape) > 65535:
            ctx.bump('matrices_with_an_axis_beyond_uint16')
        run_core(ctx, M, work, rng, budgets=[1e-9, 1.0], all_slices=False,
                 shuffle=bool(rng.random() < 0.5), do_parallel=True)
        if len(ctx.viol) >= 10:
            break


def read_x(path):
    a = anndata.read_h5ad(path)
    X = a.X
    if scipy.sparse.issparse(X):
        X = X.toarray()
    return np.asarray(X), list(a.obs.index), list(a.var.index)


def file_guard(ctx, name, M, fn, what):
    try:
        fn()
        return True
    except Exception:
        tb = traceback.format_exc()
        sig, last = oracles.exception_signature(tb)
        nnz = int((M != 0).sum())
        if nnz == 0:
            cls = 'no-stored-value'
        elif nnz < M.shape[1] + 1:
            cls = 'fewer-entries-than-columns'
        else:
            cls = 'stored-values'
        ctx.V(f'C13:{name}:exception[{cls}]:{sig}', f'{last}; {what}')
        return False


def run_fileops(spec, work, ctx):
    from cell_type_mapper.utils import anndata_utils as au
    from cell_type_mapper.utils.h5_utils import copy_h5_excluding_data
    rng = np.random.default_rng(spec['seed'])
    import contextlib
    import io
    for it in range(spec['n']):
        M = random_sparse(rng, max_dim=60)
        if rng.random() < 0.12:
            M = np.zeros_like(M)          # no stored value at all
        n, m = M.shape
        nnz = int((M != 0).sum())
        obs = [f'c{i}' for i in range(n)]
        var = [f'g{j}' for j in range(m)]
        desc = (f'matrix {M.shape} nnz={nnz} dtype={M.dtype} '
                f'M={M.tolist() if M.size <= 30 else "..."}')
        ctx.features.add((M.shape, nnz, 'fileops'))
        scratch = work / f'scr{it}'
        scratch.mkdir()
        csr = work / f'csr{it}.h5ad'
        csc = work / f'csc{it}.h5ad'
        dense_layer = work / f'lay{it}.h5ad'
        mapworld.write_h5ad(csr, M, obs, var, encoding='csr')
        mapworld.write_h5ad(csc, M, obs, var, encoding='csc')
        lay_enc = str(rng.choice(['dense', 'csr', 'csc']))
        mapworld.write_h5ad(dense_layer, M, obs, var, encoding=lay_enc,
                            layer='raw_counts')
        sink = io.StringIO()
        # pivot
        dst = work / f'pivot{it}.h5ad'
        n_proc = int(rng.integers(1, 4))
        what = f'{desc} pivot n_processors={n_proc}'

        def pivot():
            with contextlib.redirect_stdout(sink):
                au.pivot_csr_h5ad(src_path=csr, dst_path=dst,
                                  tmp_dir=str(scratch), n_processors=n_proc,
                                  max_gb=float(rng.choice([1e-9, 1.0])),
                                  compression=bool(rng.random() < 0.5))
        if file_guard(ctx, 'pivot_csr_h5ad', M, pivot, what):
            X, o, v = read_x(dst)
            with h5py.File(dst, 'r') as f:
                enc = f['X'].attrs['encoding-type']
            ctx.bump('file_ops_checked')
            if not np.array_equal(X, M) or o != obs or v != var or \
                    enc != 'csc_matrix':
                ctx.V('C13:pivot_csr_h5ad:wrong-matrix', what)
        # shuffle rows
        dst = work / f'shuf{it}.h5ad'
        order = rng.permutation(n)
        what = f'{desc} shuffle order={order.tolist()[:10]}'

        def shuf():
            au.shuffle_csr_h5ad_rows(src_path=csr, dst_path=dst,
                                     new_row_order=order,
                                     compression=bool(rng.random() < 0.5))
        if file_guard(ctx, 'shuffle_csr_h5ad_rows', M, shuf, what):
            X, o, v = read_x(dst)
            ctx.bump('file_ops_checked')
            if not np.array_equal(X, M[order]) or \
                    o != [obs[i] for i in order] or v != var:
                ctx.V('C13:shuffle_csr_h5ad_rows:wrong-matrix', what)
        # subset columns
        dst = work / f'sub{it}.h5ad'
        k = int(rng.integers(1, m + 1))
        chosen = rng.choice(m, size=k, replace=False)
        what = f'{desc} subset columns={chosen.tolist()[:10]}'

        def sub():
            au.subset_csc_h5ad_columns(src_path=csc, dst_path=dst,
                                       chosen_columns=chosen,
                                       compression=bool(rng.random() < 0.5))
        if file_guard(ctx, 'subset_csc_h5ad_columns', M, sub, what):
            X, o, v = read_x(dst)
            sc = np.sort(chosen)
            ctx.bump('file_ops_checked')
            if not np.array_equal(X, M[:, sc]) or o != obs or \
                    v != [var[j] for j in sc]:
                ctx.V('C13:subset_csc_h5ad_columns:wrong-matrix', what)
        # copy layer to X
        dst = work / f'cpl{it}.h5ad'
        what = f'{desc} copy_layer_to_x from {lay_enc} layer'

        def cpl():
            au.copy_layer_to_x(original_h5ad_path=dense_layer,
                               new_h5ad_path=dst, layer='raw_counts')
        if file_guard(ctx, 'copy_layer_to_x', M, cpl, what):
            X, o, v = read_x(dst)
            ctx.bump('file_ops_checked')
            if not np.array_equal(X, M) or o != obs or v != var:
                ctx.V('C13:copy_layer_to_x:wrong-matrix', what)
        # copy a chunked dense layer to X: every storage layout in turn,
        # every entry stored and distinct, so a tile the copy loop never
        # visits (or visits with the wrong offset) shows as a wrong value
        layout = ['tall', 'cols', 'gzip', 'small', 'wide',
                  'rows'][(spec['seed'] + it) % 6]
        Md = (np.arange(M.size, dtype=np.int64).reshape(M.shape)
              + 1).astype(np.float32)
        if it == 2:
            # tall auto-chunked layer (HDF5 picks row chunk > column chunk)
            Md = (np.arange(1500 * 260, dtype=np.int64).reshape(1500, 260)
                  + 1).astype(np.float32)
            layout = 'gzip'
        obs_d = [f'c{i}' for i in range(Md.shape[0])]
        var_d = [f'g{j}' for j in range(Md.shape[1])]
        src = work / f'laychunk{it}.h5ad'
        dst = work / f'cplchunk{it}.h5ad'
        mapworld.write_h5ad(src, Md, obs_d, var_d, encoding='dense',
                            layer='raw_counts', h5_layout=layout)
        what = (f'copy_layer_to_x from dense layer {Md.shape} stored with '
                f'layout {layout}')

        def cplc():
            au.copy_layer_to_x(original_h5ad_path=src,
                               new_h5ad_path=dst, layer='raw_counts')
        if file_guard(ctx, 'copy_layer_to_x', Md, cplc, what):
            X, o, v = read_x(dst)
            ctx.bump('file_ops_checked')
            ctx.bump('chunked_dense_layer_copies')
            if not np.array_equal(X, Md) or o != obs_d or v != var_d:
                ctx.V('C13:copy_layer_to_x:wrong-matrix[chunked-dense-layer]',
                      what)
        src.unlink()
        if dst.exists():
            dst.unlink()
        # amalgamate rows from several files / layers
        M2 = random_sparse(rng, max_dim=40)
        M2 = np.resize(M2, (M2.shape[0], m)).astype(M.dtype)
        if nnz == 0:
            M2 = np.zeros_like(M2)
        p2 = work / f'second{it}.h5ad'
        enc2 = str(rng.choice(['dense', 'csr', 'csc']))
        mapworld.write_h5ad(p2, M2, [f'd{i}' for i in range(M2.shape[0])],
                            var, encoding=enc2)
        rows_a = [int(x) for x in rng.choice(
            n, size=int(rng.integers(1, n + 1)), replace=False)]
        rows_b = [int(x) for x in rng.choice(
            M2.shape[0], size=int(rng.integers(1, M2.shape[0] + 1)),
            replace=False)]
        rows_c = [int(x) for x in rng.choice(
            n, size=int(rng.integers(1, n + 1)), replace=False)]
        # one file holding two different matrices (X = the rows reversed,
        # layer 'alt' = the matrix itself), asked for twice, once per layer
        two = work / f'two_layers{it}.h5ad'
        enc3 = str(rng.choice(['dense', 'csr', 'csc']))
        conv = {'dense': np.asarray,
                'csr': scipy.sparse.csr_matrix,
                'csc': scipy.sparse.csc_matrix}[enc3]
        anndata.AnnData(
            X=conv(M[::-1].copy()), layers={'alt': conv(M.copy())},
            obs=pd.DataFrame(index=obs),
            var=pd.DataFrame(index=var)).write_h5ad(two)
        rows_d = [int(x) for x in rng.choice(
            n, size=int(rng.integers(1, n + 1)), replace=False)]
        rows_e = [int(x) for x in rng.choice(
            n, size=int(rng.integers(1, n + 1)), replace=False)]
        src_rows = [
            {'path': str(csr), 'rows': rows_a, 'layer': 'X'},
            {'path': str(two), 'rows': rows_d, 'layer': 'X'},
            {'path': str(p2), 'rows': rows_b, 'layer': 'X'},
            {'path': str(dense_layer), 'rows': rows_c,
             'layer': 'raw_counts'},
            {'path': str(two), 'rows': rows_e, 'layer': 'alt'}]
        expect = np.vstack([M[rows_a], M[::-1][rows_d], M2[rows_b],
                            M[rows_c], M[rows_e]])
        ctx.bump('amalgamations_with_two_layers_of_one_file')
        for dst_sparse in (True, False):
            dst = work / f'amal{it}_{int(dst_sparse)}.h5ad'
            what = (f'{desc} amalgamate dst_sparse={dst_sparse} second '
                    f'{M2.shape} {enc2}')
            new_obs = pd.DataFrame(index=[f'n{i}'
                                          for i in range(len(expect))])
            new_var = pd.DataFrame(index=var)

            def amal():
                with contextlib.redirect_stdout(sink):
                    au.amalgamate_h5ad(
                        src_rows=src_rows, dst_path=dst, dst_obs=new_obs,
                        dst_var=new_var, dst_sparse=dst_sparse,
                        tmp_dir=str(scratch),
                        compression=bool(rng.random() < 0.5))
            E = expect
            if file_guard(ctx, f'amalgamate_h5ad', E, amal, what):
                X, o, v = read_x(dst)
                ctx.bump('file_ops_checked')
                if X.shape != E.shape or not np.array_equal(X, E) or \
                        v != var:
                    ctx.V('C13:amalgamate_h5ad:wrong-matrix', what)
        # element-wise HDF5 copy in bounded hyperslabs
        dst = work / f'copy{it}.h5'
        mx = int(rng.choice([1, 2, 5, 17, 100000]))
        src_file = [csr, csc, dense_layer][int(rng.integers(3))]
        what = f'{desc} copy_h5_excluding_data max_elements={mx}'

        def cph():
            copy_h5_excluding_data(src_path=src_file, dst_path=dst,
                                   excluded_groups=['var'],
                                   excluded_datasets=None,
                                   max_elements=mx)
        if file_guard(ctx, 'copy_h5_excluding_data', M, cph, what):
            ctx.bump('file_ops_checked')
            bad = compare_h5(src_file, dst, excluded=('var',))
            if bad:
                ctx.V('C13:copy_h5_excluding_data:differs',
                      f'{bad}; {what}')
        left = [p.name for p in scratch.iterdir()]
        if left:
            ctx.V('C13:fileops-scratch-left-behind', f'{left}')
        if len(ctx.viol) >= 10:
            break


def compare_h5(a, b, excluded=()):
    problems = []
    with h5py.File(a, 'r') as fa, h5py.File(b, 'r') as fb:
        def visit(name, obj):
            if any(name == e or name.startswith(e + '/') for e in excluded):
                return
            if name not in fb:
                problems.append(f'{name} missing')
                return
            if isinstance(obj, h5py.Dataset):
                x, y = obj[()], fb[name][()]
                same = (x == y) if not isinstance(x, np.ndarray) \
                    else (x.shape == y.shape and x.dtype == y.dtype
                          and np.array_equal(x, y))
                if not same:
                    problems.append(f'{name} differs')
            for k, v in obj.attrs.items():
                w = fb[name].attrs.get(k)
                if isinstance(v, np.ndarray):
                    if w is None or not np.array_equal(v, w):
                        problems.append(f'{name}@{k}')
                elif v != w:
                    problems.append(f'{name}@{k}')
        fa.visititems(visit)
        for e in excluded:
            if e in fb:
                problems.append(f'excluded {e} was copied')
    return problems[:5]


def run_case(spec, work):
    ctx = Ctx()
    if spec['mode'] == 'patterns':
        run_patterns(spec, work, ctx)
    elif spec['mode'] == 'random':
        run_random(spec, work, ctx)
    else:
        run_fileops(spec, work, ctx)
    feats = sorted(ctx.features, key=str)
    return {'violations': ctx.viol, 'counters': ctx.counters,
            'features': [str(f) for f in feats[:10]],
            'distinct_list': [str(f) for f in feats],
            'nontrivial': True,
            'sample': {'mode': spec['mode'],
                       'example': str(feats[0]) if feats else None}}


def distinct_count(results):
    s = set()
    for r in results:
        for f in r.get('distinct_list') or []:
            s.add(f)
    return len(s)
