"""
C12 - selected query markers cover every cluster pair as far as possible.
Reference-model monitor: the real selection (select_all_markers and
create_marker_gene_lookup_from_ref_list) runs on reference-marker files made
by the pipeline and on files synthesised in the documented layout from random
up / down tables; a census computed independently from the file decides
coverage per leaf pair.
"""
import itertools
import json
import traceback

import h5py
import numpy as np
import scipy.sparse

from vp import gen, oracles, pipeworld as pw

PROPERTY = 'C12'
LEVEL = 'exploration'
CASE_TIMEOUT = 400
BATCH_SIZE = {'quick': 2, 'thorough': 6}
REQUIRED_COUNTERS = ['tables_checked', 'parents_checked',
                     'pairs_coverage_checked', 'pairs_short_of_target',
                     'pairs_without_markers', 'differential_runs',
                     'pipeline_tables_checked', 'override_runs',
                     'override_names_parent_without_pairs',
                     'tables_with_a_256_pair_parent',
                     'tables_with_over_255_markers_one_way']
RULE = ('case = reference-marker table (synthesised from random up / down '
        'tables: dense, sparse, pairs with no marker, pairs short of the '
        'target in one or both directions, pairs with 256 / 258 / 512 markers '
        'one way under tiny parents; or produced by the pipeline) x '
        'taxonomy x query gene subset x per-direction target 1..15 x '
        'per-parent override x 1-4 workers x large-parent threshold from 0 '
        'to huge.  Non-trivial = at least one pair whose coverage bound is '
        'below 2 x target and one that reaches it; distinct = distinct '
        '(n leaves, n genes, density class, target) tuples')
ASSUMPTIONS = [
    'the census is computed with scipy from the arrays of the marker file '
    '(or from the generating tables) and the model\'s leaf pairs',
]


def gen_cases(tier, seed):
    rng = np.random.default_rng([seed, 112])
    n = 40 if tier == 'quick' else 4000
    cases = []
    for i in range(n):
        cases.append({'seed': int(rng.integers(2 ** 31)),
                      'source': 'pipeline' if i % 8 == 7 else 'synthetic',
                      'override_mode': ('moot-parents' if i % 4 == 1
                                        else None),
                      'shape': ('256-pairs' if i % 20 == 2 else
                                'many-markers-one-way' if i % 20 == 12
                                else None)})
    return cases


def write_marker_file(path, leaves, genes, up, down, leaf_level):
    """documented layout of the reference-marker file"""
    pairs = list(itertools.combinations(sorted(leaves), 2))
    p2i = {leaf_level: {}}
    for idx, (a, b) in enumerate(pairs):
        p2i[leaf_level].setdefault(a, {})
        p2i[leaf_level].setdefault(b, {})
        p2i[leaf_level][a][b] = idx
    n_pairs, n_genes = up.shape
    with h5py.File(path, 'w') as f:
        f.create_dataset('gene_names',
                         data=json.dumps(list(genes)).encode('utf-8'))
        f.create_dataset('pair_to_idx',
                         data=json.dumps(p2i).encode('utf-8'))
        f.create_dataset('n_pairs', data=n_pairs)
        for name, M in (('up', up), ('down', down)):
            A = scipy.sparse.csr_matrix(M.astype(np.int8))
            A.sort_indices()
            T = scipy.sparse.csr_matrix(A.T)
            T.sort_indices()
            f.create_dataset(f'sparse_by_pair/{name}_pair_idx',
                             data=A.indptr.astype(np.int64))
            f.create_dataset(f'sparse_by_pair/{name}_gene_idx',
                             data=A.indices.astype(np.int64))
            f.create_dataset(f'sparse_by_gene/{name}_gene_idx',
                             data=T.indptr.astype(np.int64))
            f.create_dataset(f'sparse_by_gene/{name}_pair_idx',
                             data=T.indices.astype(np.int64))
    return pairs


def read_tables(path):
    with h5py.File(path, 'r') as f:
        genes = json.loads(f['gene_names'][()].decode())
        p2i = json.loads(f['pair_to_idx'][()].decode())
        n_pairs = int(f['n_pairs'][()])
        out = {}
        for name in ('up', 'down'):
            ip = f[f'sparse_by_pair/{name}_pair_idx'][()].astype(np.int64)
            ix = f[f'sparse_by_pair/{name}_gene_idx'][()].astype(np.int64)
            out[name] = scipy.sparse.csr_matrix(
                (np.ones(len(ix), dtype=np.int8), ix, ip),
                shape=(n_pairs, len(genes))).toarray().astype(bool)
    return genes, p2i, out['up'], out['down']


def synth_tables(rng, n_pairs, n_genes):
    klass = str(rng.choice(['dense', 'sparse', 'very-sparse', 'mixed']))
    dens = {'dense': 0.5, 'sparse': 0.1, 'very-sparse': 0.02,
            'mixed': 0.2}[klass]
    r = rng.random((n_pairs, n_genes))
    up = r < dens / 2
    down = (r >= dens / 2) & (r < dens)
    for i in range(n_pairs):
        q = rng.random()
        if q < 0.12:
            up[i] = False
            down[i] = False                    # no marker at all
        elif q < 0.25:
            up[i] = False                      # one direction only
        elif q < 0.35:
            keep = rng.random(n_genes) < 0.15  # very few markers
            up[i] &= keep
            down[i] &= keep
        elif q < 0.45 and klass != 'dense':
            extra = rng.random(n_genes) < 0.7  # a rich pair
            free = ~(up[i] | down[i]) & extra
            half = rng.random(n_genes) < 0.5
            up[i] |= free & half
            down[i] |= free & ~half
    return up, down, klass


class Ctx(object):
    def __init__(self):
        self.viol = []
        self.counters = {}

    def bump(self, k, n=1):
        self.counters[k] = self.counters.get(k, 0) + n

    def V(self, sig, msg):
        if len(self.viol) < 8:
            self.viol.append({'sig': sig, 'msg': msg[:1500]})


def model_pairs(model, parent):
    plv, pn = (None, None) if parent is None else parent
    kids = model.children(plv, pn)
    if plv is not None and \
            model.level_index(plv) == len(model.hierarchy) - 1:
        return []
    cl = model.hierarchy[0] if plv is None else \
        model.hierarchy[model.level_index(plv) + 1]
    out = []
    for a, b in itertools.combinations(kids, 2):
        for x in model.leaves_under(cl, a):
            for y in model.leaves_under(cl, b):
                out.append(tuple(sorted((x, y))))
    return out


def check_selection(ctx, tag, selection, model, genes, p2i, up, down,
                    query_genes, targets, what):
    """selection: dict parent (None or (level,node)) -> list of genes"""
    Q = set(query_genes)
    gidx = {g: i for i, g in enumerate(genes)}
    inq = np.array([g in Q for g in genes])
    leaf_level = model.leaf_level
    both = up | down
    for parent in model.all_parents():
        key = parent if parent is None else tuple(parent)
        if key not in selection:
            ctx.V(f'C12:{tag}:parent-missing', f'{parent}; {what}')
            continue
        sel = list(selection[key])
        ctx.bump('parents_checked')
        pairs = model_pairs(model, parent)
        target = targets.get(key, targets['default'])
        if len(sel) != len(set(sel)):
            ctx.V(f'C12:{tag}:duplicate-genes', f'{parent}: {sel}; {what}')
        not_q = [g for g in sel if g not in Q]
        if not_q:
            ctx.V(f'C12:{tag}:gene-not-in-query',
                  f'{parent}: {not_q[:5]}; {what}')
        if not pairs:
            if sel:
                ctx.V(f'C12:{tag}:markers-without-pairs',
                      f'{parent} has nothing to discriminate but got '
                      f'{sel[:6]}; {what}')
            continue
        rows = [p2i[leaf_level][a][b] for a, b in pairs]
        marks_any = both[rows].any(axis=0)
        useless = [g for g in sel if g in gidx and not marks_any[gidx[g]]]
        unknown = [g for g in sel if g not in gidx]
        if useless or unknown:
            ctx.V(f'C12:{tag}:gene-marks-no-pair-of-parent',
                  f'{parent}: {(useless + unknown)[:6]}; {what}')
        selmask = np.zeros(len(genes), dtype=bool)
        for g in sel:
            if g in gidx:
                selmask[gidx[g]] = True
        for (a, b), r in zip(pairs, rows):
            ctx.bump('pairs_coverage_checked')
            avail = both[r] & inq
            n_avail = int(avail.sum())
            got = int((avail & selmask).sum())
            need = min(2 * target, n_avail)
            if n_avail == 0:
                ctx.bump('pairs_without_markers')
            elif n_avail < 2 * target:
                ctx.bump('pairs_short_of_target')
            else:
                ctx.bump('pairs_reaching_target')
            if got < need:
                ctx.V(f'C12:{tag}:pair-under-covered',
                      f'parent {parent} pair ({a},{b}): {got} selected '
                      f'markers, {n_avail} available in the query, target '
                      f'{target} per direction (need {need}); {what}')


def run_case(spec, work):
    from cell_type_mapper.marker_selection.selection_pipeline import (
        select_all_markers)
    from cell_type_mapper.taxonomy.taxonomy_tree import TaxonomyTree
    rng = np.random.default_rng(spec['seed'])
    ctx = Ctx()
    tmp = work / 'tmp'
    tmp.mkdir()
    if spec['source'] == 'synthetic' and spec.get('shape') == '256-pairs':
        # a parent with exactly 256 leaf pairs (two children of 16 leaves
        # each) in a taxonomy of 561 pairs, every one of its pairs marked
        # by one gene of its own: each pair needs exactly that gene
        sixteen = tuple(() for _ in range(16))
        forest = ((sixteen, sixteen), (((), ()),))
        model = gen.build_from_shape(forest, 3, rng)
        k = 34
        n_genes = 300
        genes = gen.gene_names(rng, n_genes)
        n_pairs = k * (k - 1) // 2
        up = np.zeros((n_pairs, n_genes), dtype=bool)
        down = np.zeros((n_pairs, n_genes), dtype=bool)
        top = [nd for nd in model.nodes[model.hierarchy[0]]
               if len(model.leaves_under(model.hierarchy[0], nd)) == 32][0]
        subs = model.children(model.hierarchy[0], top)
        la = set(model.leaves_under(model.hierarchy[1], subs[0]))
        lb = set(model.leaves_under(model.hierarchy[1], subs[1]))
        priv = 0
        for row, (a, b) in enumerate(itertools.combinations(
                sorted(model.leaves), 2)):
            if (a in la and b in lb) or (a in lb and b in la):
                (up if priv % 2 else down)[row, priv] = True
                priv += 1
            else:
                m = rng.random(n_genes - 256) < 0.05
                half = rng.random(n_genes - 256) < 0.5
                up[row, 256:] = m & half
                down[row, 256:] = m & ~half
        assert priv == 256
        klass = 'private-gene-per-pair'
        ctx.bump('tables_with_a_256_pair_parent')
    elif spec['source'] == 'synthetic' and \
            spec.get('shape') == 'many-markers-one-way':
        # few pairs, hundreds of genes: pairs with 256 / 258 / 512 markers
        # in one direction and none or a handful in the other (per-pair
        # gene counts beyond one byte while the pair count is tiny)
        # two parents hold exactly one pair each (a wrapped count cannot be
        # made up for by genes chosen for sibling pairs); the root holds
        # the other eight
        forest = (((), ()), ((), ()), ((),))
        d, k = 2, 5
        model = gen.build_from_shape(forest, d, rng)
        n_genes = int(rng.integers(530, 600))
        genes = gen.gene_names(rng, n_genes)
        n_pairs = k * (k - 1) // 2
        up = np.zeros((n_pairs, n_genes), dtype=bool)
        down = np.zeros((n_pairs, n_genes), dtype=bool)
        top_level = model.hierarchy[0]
        lone = [tuple(sorted(model.leaves_under(top_level, nd)))
                for nd in model.nodes[top_level]
                if len(model.leaves_under(top_level, nd)) == 2]
        assert len(lone) == 2
        cyc = 0
        for row, pr in enumerate(itertools.combinations(
                sorted(model.leaves), 2)):
            perm = rng.permutation(n_genes)
            if pr == lone[0]:
                many, few = 256, 0
            elif pr == lone[1]:
                many, few = 258, 4
            else:
                many, few = [(512, 0), (257, 3), (40, 30), (256, 0),
                             (258, 4)][cyc % 5]
                cyc += 1
            a, b = (up, down) if (spec['seed'] + row) % 2 == 0 \
                else (down, up)
            a[row, perm[:many]] = True
            b[row, perm[many:many + few]] = True
        klass = 'many-markers-one-way'
        ctx.bump('tables_with_over_255_markers_one_way')
    elif spec['source'] == 'synthetic':
        d = int(rng.integers(1, 5))
        k = int(rng.integers(2, 10))
        model = gen.build_from_shape(gen.random_forest(rng, d, k), d, rng)
        n_genes = int(rng.integers(6, 60))
        genes = gen.gene_names(rng, n_genes)
        n_pairs = k * (k - 1) // 2
        up, down, klass = synth_tables(rng, n_pairs, n_genes)
    if spec['source'] == 'synthetic':
        path = work / 'refm.h5'
        write_marker_file(path, model.leaves, genes, up, down,
                          model.leaf_level)
        genes_f, p2i, up_f, down_f = genes, None, up, down
        genes_f, p2i, up_f, down_f = read_tables(path)
        stats_path = None
    else:
        ref = pw.make_reference(rng, work, n_levels=int(rng.integers(2, 4)),
                                n_leaves=int(rng.integers(4, 8)),
                                n_genes=int(rng.integers(20, 40)),
                                cells_per_leaf=(6, 10))
        model = ref.model
        stats_path = work / 'stats.h5'
        path = work / 'refm.h5'
        try:
            pw.run_stats(ref, stats_path, tmp)
            pw.run_ref_markers(stats_path, path, tmp,
                               n_valid=int(rng.integers(2, 12)))
        except Exception:
            return {'violations': [{
                        'sig': 'C12:pipeline-stage-raised-on-valid-input',
                        'msg': traceback.format_exc()[-600:]}],
                    'counters': {}, 'features': ['raised'],
                    'nontrivial': True}
        genes_f, p2i, up_f, down_f = read_tables(path)
        klass = 'pipeline'
        ctx.bump('pipeline_tables_checked')
    ctx.bump('tables_checked')
    genes = genes_f
    n_genes = len(genes)
    # query: subset of the reference genes plus foreign genes, shuffled
    keep = rng.random(n_genes) < float(rng.choice([0.4, 0.7, 1.0]))
    if spec.get('shape') in ('256-pairs', 'many-markers-one-way'):
        keep[:] = True
    if not keep.any():
        keep[0] = True
    query = [g for g, kp in zip(genes, keep) if kp] + \
        [f'foreign_{i}' for i in range(int(rng.integers(0, 5)))]
    # foreign names that merely *start* with the name of a reference gene
    # the query lacks (a version suffix, one more digit): not the same gene
    absent = [g for g, kp in zip(genes, keep) if not kp]
    longest = max(len(g) for g in genes)
    for g in absent[:3]:
        query.append(g + '.' + '1' * max(2, longest - len(g) + 1))
        query.append(g + '0' * max(1, longest - len(g) + 1))
        ctx.bump('query_names_extending_an_absent_reference_gene', 2)
    rng.shuffle(query)
    target = int(rng.choice([1, 1, 2, 2, 3, 4, 5, 8, 15]))
    if spec.get('shape') == 'many-markers-one-way':
        target = 5
    tree = TaxonomyTree(data=model.to_dict(with_cells=False))
    parents = model.all_parents()
    override = None
    targets = {'default': target}
    mode = spec.get('override_mode')
    if mode == 'moot-parents':
        # "override every <level> node": the dict also names parents with
        # nothing to discriminate (their entry is moot), with a target far
        # from the default one
        moot = [p for p in parents if p is not None and
                not model_pairs(model, p)]
        real = [p for p in parents if p is not None and
                model_pairs(model, p)]
        if moot:
            target = int(rng.choice([5, 8, 15]))
            targets = {'default': target}
            override = {tuple(p): 1 for p in moot}
            if real and rng.random() < 0.5:
                p = real[int(rng.integers(len(real)))]
                t2 = int(rng.integers(1, 16))
                override[tuple(p)] = t2
                targets[tuple(p)] = t2
            ctx.bump('override_runs')
            ctx.bump('override_names_parent_without_pairs')
    elif rng.random() < 0.4:
        cand = [p for p in parents if p is not None and
                model_pairs(model, p)]
        if cand:
            p = cand[int(rng.integers(len(cand)))]
            t2 = int(rng.integers(1, 16))
            override = {tuple(p): t2}
            targets[tuple(p)] = t2
            ctx.bump('override_runs')
    n_proc = int(rng.integers(1, 5))
    gat = int(rng.choice([1, 1, 2, 5]))
    cutoffs = [0, 3, 10 ** 7]
    cutoff = int(cutoffs[int(rng.integers(3))])
    if spec.get('shape') == '256-pairs':
        cutoff = 10 ** 7          # the 256-pair parent on the reduced table
    what = (f'source={spec["source"]} class={klass} '
            f'leaves={len(model.leaves)} genes={n_genes} '
            f'query={len(query)} target={target} override={override} '
            f'n_processors={n_proc} behemoth_cutoff={cutoff} '
            f'genes_at_a_time={gat}')

    def select(n_processors, behemoth_cutoff):
        with pw.quiet():
            sel, log = select_all_markers(
                marker_cache_path=path, query_gene_names=list(query),
                taxonomy_tree=tree, n_per_utility=target,
                n_processors=n_processors,
                behemoth_cutoff=behemoth_cutoff, genes_at_a_time=gat,
                n_per_utility_override=override, parent_list=None,
                tmp_dir=str(tmp))
        return {(k if k is None else tuple(k)): list(v)
                for k, v in sel.items()}
    try:
        sel = select(n_proc, cutoff)
        check_selection(ctx, 'select_all_markers', sel, model, genes, p2i,
                        up_f, down_f, query, targets, what)
        # differential: worker count and large-parent threshold
        others = [(npc, c) for npc in (1, 2, 4) for c in cutoffs
                  if (npc, c) != (n_proc, cutoff)]
        for j in rng.permutation(len(others))[:2]:
            npc, c = others[j]
            sel2 = select(npc, c)
            ctx.bump('differential_runs')
            if {k: sorted(v) for k, v in sel2.items()} != \
                    {k: sorted(v) for k, v in sel.items()}:
                diff = [k for k in sel if sorted(sel[k])
                        != sorted(sel2.get(k, []))]
                ctx.V('C12:selection-depends-on-workers-or-threshold',
                      f'n_processors={npc} behemoth_cutoff={c} changes the '
                      f'selection of {diff[:3]}; {what}')
    except Exception:
        tb = traceback.format_exc()
        sig, last = oracles.exception_signature(tb)
        ctx.V(f'C12:exception:{sig}', f'{last}; {what}')
    if stats_path is not None:
        try:
            lk, _ = pw.run_query_markers(
                path, query, None, tmp, n_processors=n_proc,
                n_per_utility=target, behemoth_cutoff=cutoff,
                override=override)
            sel3 = {}
            for key, v in lk.items():
                if key == 'None':
                    sel3[None] = v
                else:
                    lv, node = key.split('/', 1)
                    sel3[(lv, node)] = v
            check_selection(ctx, 'lookup_from_ref_list', sel3, model, genes,
                            p2i, up_f, down_f, query, targets, what)
        except Exception:
            tb = traceback.format_exc()
            sig, last = oracles.exception_signature(tb)
            ctx.V(f'C12:exception[lookup]:{sig}', f'{last}; {what}')
    left = [p.name for p in tmp.iterdir()]
    if left:
        ctx.V('C12:scratch-left-behind', f'{left}')
    nontrivial = ctx.counters.get('pairs_short_of_target', 0) > 0 or \
        ctx.counters.get('pairs_reaching_target', 0) > 0
    return {'violations': ctx.viol, 'counters': ctx.counters,
            'features': [len(model.leaves), n_genes, klass, target,
                         len(model.hierarchy)],
            'nontrivial': nontrivial,
            'sample': {'what': what}}
