"""
C04 - results depend only on inputs and seed, never on scheduling.
Differential monitor: each parallel stage is run repeatedly on the same
files in fresh interpreters while the multiprocessing.Process proxy forces
chosen completion orders of its workers (turnstile), PYTHONHASHSEED varies,
and (mapping) worker counts that induce the same chunks vary; outputs are
compared bitwise with the baseline run.
"""
import itertools
import json
import os
import pathlib
import subprocess
import sys

import numpy as np

from vp.checks import c14

PROPERTY = 'C04'
LEVEL = 'exploration'
CASE_TIMEOUT = 600
BATCH_SIZE = {'quick': 1, 'thorough': 1}
REQUIRED_COUNTERS = ['runs_compared', 'distinct_completion_orders_observed',
                     'non_dispatch_orders_observed', 'hashseed_runs',
                     'tied_vote_records_in_baseline_mapping',
                     'worker_count_runs']
RULE = ('case = (stage, input seed); baseline run + variants: forced '
        'completion orders of the stage\'s workers (thorough: every '
        'permutation of up to 4 concurrently runnable workers; quick: '
        'reversed + 2 seeded permutations), random delays, PYTHONHASHSEED in '
        '{0, 1, 42, 4242, random}, and for mapping n_processors in '
        '{1, 2, 4, 5} which all induce the same chunks.  The proxy\'s finish '
        'log proves which order happened; a turnstile time-out makes that '
        'schedule inconclusive.  Non-trivial = a variant whose observed '
        'finish order differs from dispatch order or whose hash seed / '
        'worker count differs; distinct = distinct (stage, observed order / '
        'variant) pairs')
ASSUMPTIONS = [
    'workers are separate OS processes sharing only files and a Manager '
    'object: completion / write order is the schedule space that can '
    'influence a result',
    'log, metadata (timestamps, durations) and config are not results',
]

STAGE_LIST = list(c14.STAGES.keys())


def gen_cases(tier, seed):
    cases = []
    n_inputs = 1 if tier == 'quick' else 6
    for stage in STAGE_LIST:
        for k in range(n_inputs):
            cases.append({'stage': stage, 'seed': 7000 + 13 * seed + k,
                          'tier': tier})
    return cases


def _spawn(env_dir, stage, out_dir, result, plan=None, hashseed='0',
           n_proc=None):
    env = dict(os.environ)
    env['PYTHONHASHSEED'] = str(hashseed)
    cmd = [sys.executable, '-m', 'vp.stage_runner', '--env-dir',
           str(env_dir), '--stage', stage, '--out-dir', str(out_dir),
           '--result', str(result)]
    if plan is not None:
        pp = pathlib.Path(str(result) + '.plan.json')
        pp.write_text(json.dumps(plan))
        cmd += ['--plan', str(pp)]
    if n_proc is not None:
        cmd += ['--n-proc', str(n_proc)]
    proc = subprocess.run(cmd, env=env, stdout=subprocess.PIPE,
                          stderr=subprocess.STDOUT, timeout=240)
    if not pathlib.Path(result).exists():
        return {'exception': 'runner died: '
                + proc.stdout.decode('utf-8', 'replace')[-800:]}
    return json.loads(pathlib.Path(result).read_text())


def run_case(spec, work):
    stage = spec['stage']
    rng = np.random.default_rng(spec['seed'])
    env = c14.Env(work, spec['seed'], n_leaves=8, n_query=12)
    env.save()
    counters, viol = {}, []
    seen_orders = set()
    vi = [0]

    default_np = 5 if stage.startswith('mapping') else 4

    def variant(**kw):
        kw.setdefault('n_proc', default_np)
        vi[0] += 1
        out_dir = work / f'v{vi[0]}'
        out_dir.mkdir()
        return _spawn(work, stage, out_dir, work / f'res{vi[0]}.json', **kw)

    base = variant()
    if 'exception' in base:
        return {'violations': [], 'counters': {},
                'inconclusive': f'baseline {stage} failed: '
                                f'{base["exception"]} '
                                f'{(base.get("traceback") or "")[-300:]}',
                'features': None, 'nontrivial': False}
    n_workers = base['n_workers']
    counters['workers_' + stage] = n_workers
    keys = [k for k in base if k not in ('traceback', 'finish_order',
                                         'turn_timeouts', 'n_workers',
                                         'tied_vote_records')]
    if 'tied_vote_records' in base:
        counters['tied_vote_records_in_baseline_mapping'] = \
            base['tied_vote_records']

    def compare(res, what):
        if 'exception' in res:
            viol.append({'sig': f'C04:variant-raises[{stage}]',
                         'msg': f'{what}: {res["exception"]}'})
            return
        counters['runs_compared'] = counters.get('runs_compared', 0) + 1
        for k in keys:
            if res.get(k) != base.get(k):
                detail = ''
                if isinstance(base.get(k), dict):
                    diff = [n for n in base[k]
                            if res.get(k, {}).get(n) != base[k][n]]
                    detail = f' datasets {diff[:5]}'
                viol.append({'sig': f'C04:output-differs[{stage},{k}]',
                             'msg': f'{what}: output {k} differs from the '
                                    f'baseline run{detail}'})
                return

    # (a) completion orders
    group = list(range(min(n_workers, 4)))
    perms = [p for p in itertools.permutations(group)]
    if spec['tier'] == 'quick':
        chosen = [tuple(reversed(group))]
        others = [p for p in perms if p not in chosen and p != tuple(group)]
        rng.shuffle(others)
        chosen += [tuple(p) for p in others[:2]]
    else:
        chosen = perms
    rest = list(range(len(group), n_workers))
    for p in chosen:
        order = list(p) + rest
        plan = {'log_dir': str(work / f'inj_{vi[0] + 1}'), 'order': order,
                'turn_timeout': 6}
        res = variant(plan=plan)
        fo = tuple(res.get('finish_order') or [])
        if res.get('turn_timeouts'):
            counters['infeasible_schedules'] = counters.get(
                'infeasible_schedules', 0) + 1
        seen_orders.add(fo)
        if fo and list(fo) != sorted(fo):
            counters['non_dispatch_orders_observed'] = counters.get(
                'non_dispatch_orders_observed', 0) + 1
        compare(res, f'forced completion order {order} (observed {fo})')
    # random delays
    for _ in range(1 if spec['tier'] == 'quick' else 3):
        plan = {'log_dir': str(work / f'inj_{vi[0] + 1}'),
                'delays': [float(x) for x in rng.uniform(0, 0.3, size=7)]}
        res = variant(plan=plan)
        fo = tuple(res.get('finish_order') or [])
        seen_orders.add(fo)
        if fo and list(fo) != sorted(fo):
            counters['non_dispatch_orders_observed'] = counters.get(
                'non_dispatch_orders_observed', 0) + 1
        compare(res, f'random delays (observed order {fo})')
    # (b) hash seeds
    seeds = ['1', '42'] if spec['tier'] == 'quick' else \
        ['1', '42', '4242', 'random']
    if stage.startswith('mapping'):
        # tie-breaks between children with equal votes are where a
        # hash-ordered container would show: more hash seeds here
        seeds = ['1', '42', '7', '1234', '99'] if spec['tier'] == 'quick' \
            else ['1', '42', '7', '1234', '99', '4242', 'random', 'random']
    for hs in seeds:
        res = variant(hashseed=hs)
        counters['hashseed_runs'] = counters.get('hashseed_runs', 0) + 1
        compare(res, f'PYTHONHASHSEED={hs}')
    # (c') every other stage except the statistics (whose sums may differ
    #      in the last bit with the order of addition, see C09): any worker
    #      count gives the same file, value for value
    if not stage.startswith('mapping') and \
            not stage.startswith('stats'):
        vkeys = [k for k in keys if k.endswith('__values')
                 or k == 'returned']
        for npc in ([1, 3] if spec['tier'] == 'quick' else [1, 2, 3, 5]):
            res = variant(n_proc=npc)
            counters['worker_count_runs'] = counters.get(
                'worker_count_runs', 0) + 1
            if 'exception' in res:
                viol.append({'sig': f'C04:variant-raises[{stage}]',
                             'msg': f'{npc} workers: {res["exception"]}'})
                continue
            counters['runs_compared'] = counters.get('runs_compared', 0) + 1
            for k in vkeys:
                if res.get(k) != base.get(k):
                    diff = [n for n in (base[k] if isinstance(base[k], dict)
                                        else [])
                            if res.get(k, {}).get(n) != base[k][n]]
                    viol.append({
                        'sig': f'C04:output-depends-on-worker-count[{stage}]',
                        'msg': f'{npc} workers vs {default_np}: {k} '
                               f'differs, datasets {diff[:6]}'})
                    break
    # (c) worker counts inducing the same chunks (mapping: 12 cells, chunk 3)
    if stage in ('mapping', 'mapping_direct'):
        for npc in ([1, 4] if spec['tier'] == 'quick' else [1, 2, 4]):
            res = variant(n_proc=npc)
            counters['worker_count_runs'] = counters.get(
                'worker_count_runs', 0) + 1
            compare(res, f'n_processors={npc} (same chunks)')
    counters['distinct_completion_orders_observed'] = len(seen_orders)
    return {'violations': viol[:8], 'counters': counters,
            'features': [stage, sorted(map(list, seen_orders))],
            'distinct_list': [f'{stage}:{list(o)}' for o in seen_orders]
            + [f'{stage}:hashseed', f'{stage}:workers'],
            'nontrivial': True,
            'sample': {'stage': stage, 'workers': n_workers,
                       'orders_observed': sorted(map(list, seen_orders))}}


def distinct_count(results):
    s = set()
    for r in results:
        for f in r.get('distinct_list') or []:
            s.add(f)
    return len(s)
