"""
Worker interpreter: runs a batch of case specs of one check, one after the
other, each in its own scratch directory, and appends one JSON line per case
to the output file as soon as the case finishes.
"""
import argparse
import faulthandler
import importlib
import json
import os
import pathlib
import shutil
import sys
import time
import traceback


def _jsonable(o):
    try:
        import numpy as np
        if isinstance(o, np.generic):
            return o.item()
        if isinstance(o, np.ndarray):
            return o.tolist()
    except Exception:
        pass
    if isinstance(o, (set, frozenset)):
        return sorted(o, key=str)
    if isinstance(o, pathlib.Path):
        return str(o)
    if isinstance(o, bytes):
        return o.decode('utf-8', 'replace')
    return repr(o)


def main():
    ap = argparse.ArgumentParser()
    ap.add_argument('--check', required=True)
    ap.add_argument('--batch', required=True)
    ap.add_argument('--out', required=True)
    ap.add_argument('--root', required=True)
    args = ap.parse_args()

    faulthandler.enable()
    import cell_type_mapper
    repo_src = os.environ.get('VP_REPO_SRC', '/repo/src')
    here = str(pathlib.Path(cell_type_mapper.__file__).resolve())
    if not here.startswith(str(pathlib.Path(repo_src).resolve())):
        raise SystemExit(
            f'cell_type_mapper imported from {here}, not under {repo_src}')

    mod = importlib.import_module(f'vp.checks.{args.check}')
    batch = json.loads(pathlib.Path(args.batch).read_text())
    root = pathlib.Path(args.root)
    case_timeout = getattr(mod, 'CASE_TIMEOUT', 120)
    with open(args.out, 'a') as out:
        for i, spec in enumerate(batch):
            work = root / f'case_{i}'
            work.mkdir()
            t0 = time.time()
            faulthandler.dump_traceback_later(
                case_timeout + 30, exit=True)
            try:
                res = mod.run_case(spec, work)
            except Exception:
                res = {'violations': [],
                       'inconclusive': 'harness error: '
                       + traceback.format_exc()[-1500:]}
            faulthandler.cancel_dump_traceback_later()
            res['case_id'] = spec['case_id']
            res['spec'] = spec
            res['case_wall_s'] = round(time.time() - t0, 3)
            out.write(json.dumps(res, default=_jsonable) + '\n')
            out.flush()
            shutil.rmtree(work, ignore_errors=True)
            # reap any orphan children of this case
            try:
                import multiprocessing
                for ch in multiprocessing.active_children():
                    ch.terminate()
            except Exception:
                pass


if __name__ == '__main__':
    main()
