"""
Worker interpreter: runs a batch of case specs of one check, one after the
other, each in its own scratch directory, and appends one JSON line per case
to the output file as soon as the case finishes.
"""
import argparse
import faulthandler
import importlib
import json
import os
import pathlib
import shutil
import sys
import time
import traceback


def _jsonable(o):
    try:
        import numpy as np
        if isinstance(o, np.generic):
            return o.item()
        if isinstance(o, np.ndarray):
            return o.tolist()
    except Exception:
        pass
    if isinstance(o, (set, frozenset)):
        return sorted(o, key=str)
    if isinstance(o, pathlib.Path):
        return str(o)
    if isinstance(o, bytes):
        return o.decode('utf-8', 'replace')
    return repr(o)


def main():
    ap = argparse.ArgumentParser()
    ap.add_argument('--check', required=True)
    ap.add_argument('--batch', required=True)
    ap.add_argument('--out', required=True)
    ap.add_argument('--root', required=True)
    args = ap.parse_args()

    faulthandler.enable()
    import cell_type_mapper
    repo_src = os.environ.get('VP_REPO_SRC', '/repo/src')
    here = str(pathlib.Path(cell_type_mapper.__file__).resolve())
    if not here.startswith(str(pathlib.Path(repo_src).resolve())):
        raise SystemExit(
            f'cell_type_mapper imported from {here}, not under {repo_src}')

    mod = importlib.import_module(f'vp.checks.{args.check}')
    batch = json.loads(pathlib.Path(args.batch).read_text())
    root = pathlib.Path(args.root)
    case_timeout = getattr(mod, 'CASE_TIMEOUT', 120)
    with open(args.out, 'a') as out:
        for i, spec in enumerate(batch):
            work = root / f'case_{i}'
            work.mkdir()
            t0 = time.time()
            faulthandler.dump_traceback_later(
                case_timeout + 30, exit=True)
            try:
                res = mod.run_case(spec, work)
            except (MemoryError, TimeoutError) as exc:
                res = {'violations': [],
                       'inconclusive': f'resource problem: {exc!r}'}
            except Exception as exc:
                tb = traceback.format_exc()
                import errno
                if isinstance(exc, OSError) and exc.errno in (
                        errno.ENOSPC, errno.EMFILE, errno.ENFILE,
                        errno.ENOMEM):
                    res = {'violations': [],
                           'inconclusive': f'resource problem: {exc!r}'}
                else:
                    # the monitor itself tripped over what the code under
                    # test produced (a missing key, a missing file, a
                    # malformed record ...).  On the unchanged tree this
                    # never happens; folding it into "inconclusive" would
                    # let a malformed output pass, so it is a violation
                    # with the traceback as witness.
                    frames = [ln.strip() for ln in tb.splitlines()
                              if ln.strip().startswith('File ')]
                    where = '?'
                    for ln in reversed(frames):
                        if '/verif/vp/' in ln:
                            where = ln.split('/verif/vp/')[-1].split(
                                '"')[0] + ':' + ln.split(' in ')[-1]
                            break
                    res = {'violations': [{
                        'sig': f'{mod.PROPERTY}:monitor-exception:'
                               f'{type(exc).__name__}@{where}',
                        'msg': 'the monitor could not process the outputs '
                               'of the code under test: ' + tb[-1200:]}],
                        'nontrivial': True,
                        'features': ['monitor-exception']}
            faulthandler.cancel_dump_traceback_later()
            res['case_id'] = spec['case_id']
            res['spec'] = spec
            res['case_wall_s'] = round(time.time() - t0, 3)
            out.write(json.dumps(res, default=_jsonable) + '\n')
            out.flush()
            shutil.rmtree(work, ignore_errors=True)
            # reap any orphan children of this case
            try:
                import multiprocessing
                for ch in multiprocessing.active_children():
                    ch.terminate()
            except Exception:
                pass


if __name__ == '__main__':
    main()
