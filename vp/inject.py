"""
Source-free process instrumentation.

Every parallel stage of cell_type_mapper calls ``multiprocessing.Process``
through its module global ``multiprocessing``.  ``install(plan, modules)``
replaces that global *in the given stage modules only* by a proxy whose
``Process`` is a subclass that

  * numbers workers in dispatch order in the parent,
  * in the child: waits for its turn (turnstile ordering), sleeps a delay,
    fails before / after the target, arms a mid-way failure,
  * logs start / finish events (one O_APPEND write per line) and keeps every
    Process object so that the parent can read the exit codes afterwards.

Children are forks, so they inherit the patched globals.
"""
import importlib
import json
import multiprocessing as _real_mp
import os
import signal
import time

_STATE = {'plan': None, 'counter': 0, 'procs': [], 'victim': False,
          'mid_calls': 0, 'patched': [], 'victim_process': False,
          'in_worker': False}


class InjectedFault(RuntimeError):
    pass


def _log(plan, **rec):
    rec['pid'] = os.getpid()
    rec['t'] = time.monotonic()
    fd = os.open(os.path.join(plan['log_dir'], 'inject.jsonl'),
                 os.O_WRONLY | os.O_CREAT | os.O_APPEND, 0o644)
    try:
        os.write(fd, (json.dumps(rec) + '\n').encode())
    finally:
        os.close(fd)


def _die(mode):
    if mode == 'kill':
        os.kill(os.getpid(), signal.SIGKILL)
        time.sleep(5)
    elif mode == 'term':
        # what kill(1), container runtimes and batch schedulers send
        signal.signal(signal.SIGTERM, signal.SIG_DFL)
        os.kill(os.getpid(), signal.SIGTERM)
        time.sleep(5)
    elif mode == 'sysexit':
        import sys
        sys.exit(7)
    elif mode == 'exit':
        os._exit(3)
    elif mode == 'raise':
        raise InjectedFault('injected worker failure')
    else:
        raise ValueError(mode)


class InjectProcess(_real_mp.Process):

    def __init__(self, *args, **kwargs):
        super().__init__(*args, **kwargs)
        self._vp_idx = _STATE['counter']
        _STATE['counter'] += 1
        _STATE['procs'].append(self)
        plan = _STATE['plan']
        if plan is not None:
            _log(plan, ev='dispatch', idx=self._vp_idx)

    def run(self):
        plan = _STATE['plan']
        if plan is None:
            return super().run()
        idx = self._vp_idx
        fault = plan.get('fault')
        is_victim = bool(fault) and fault['worker'] == idx
        _STATE['victim'] = is_victim
        _STATE['victim_process'] = is_victim
        _STATE['in_worker'] = True
        _STATE['mid_calls'] = 0
        # ordering: wait for our turn
        order = plan.get('order')
        rank = None
        if order is not None and idx in order:
            rank = order.index(idx)
            if rank > 0:
                want = os.path.join(plan['log_dir'], f'done_{rank-1}')
                t0 = time.monotonic()
                while not os.path.exists(want):
                    if time.monotonic() - t0 > plan.get('turn_timeout', 20):
                        _log(plan, ev='turn_timeout', idx=idx)
                        break
                    time.sleep(0.002)
        delays = plan.get('delays')
        if delays:
            d = delays[idx % len(delays)]
            if d > 0:
                time.sleep(d)
        _log(plan, ev='start', idx=idx)
        if is_victim and fault['point'] == 'before':
            _log(plan, ev='fault', idx=idx, point='before',
                 mode=fault['mode'])
            _die(fault['mode'])
        try:
            super().run()
        finally:
            if rank is not None:
                open(os.path.join(plan['log_dir'], f'done_{rank}'),
                     'w').close()
        if is_victim and fault['point'] == 'after':
            _log(plan, ev='fault', idx=idx, point='after',
                 mode=fault['mode'])
            _die(fault['mode'])
        _log(plan, ev='finish', idx=idx)


class _MPProxy(object):
    def __init__(self):
        self.Process = InjectProcess

    def __getattr__(self, name):
        return getattr(_real_mp, name)


def _wrap_mid(func, plan):
    def wrapper(*args, **kwargs):
        if _STATE['victim']:
            _STATE['mid_calls'] += 1
            if _STATE['mid_calls'] >= plan['fault'].get('mid_after', 1):
                f = plan['fault']
                _log(plan, ev='fault', point='mid', mode=f['mode'],
                     at=func.__name__)
                _STATE['victim'] = False
                _die(f['mode'])
        return func(*args, **kwargs)
    wrapper.__wrapped__ = func
    wrapper.__name__ = getattr(func, '__name__', 'wrapped')
    return wrapper


def _wrap_delay(func, plan, seconds, who):
    def wrapper(*args, **kwargs):
        in_worker = _STATE.get('in_worker', False)
        if in_worker and (who == 'all' or not _STATE['victim_process']):
            _log(plan, ev='delay', at=getattr(func, '__name__', '?'),
                 seconds=seconds)
            time.sleep(seconds)
        return func(*args, **kwargs)
    wrapper.__wrapped__ = func
    wrapper.__name__ = getattr(func, '__name__', 'wrapped')
    return wrapper


def install(plan, module_names, mid_target=None):
    """
    plan: dict with log_dir and optional order / delays / fault.
    module_names: stage modules whose ``multiprocessing`` global is replaced.
    mid_target: (module name, attribute) wrapped for the mid-way failure.
    """
    uninstall()
    _STATE['plan'] = plan
    _STATE['counter'] = 0
    _STATE['procs'] = []
    os.makedirs(plan['log_dir'], exist_ok=True)
    proxy = _MPProxy()
    for name in module_names:
        mod = importlib.import_module(name)
        if hasattr(mod, 'multiprocessing'):
            _STATE['patched'].append((mod, 'multiprocessing',
                                      mod.multiprocessing))
            mod.multiprocessing = proxy
    if mid_target is not None and plan.get('fault') and \
            plan['fault']['point'] == 'mid':
        mod = importlib.import_module(mid_target[0])
        orig = getattr(mod, mid_target[1])
        _STATE['patched'].append((mod, mid_target[1], orig))
        setattr(mod, mid_target[1], _wrap_mid(orig, plan))
    # injected delays at existing call boundaries inside the workers:
    # plan['delay_points'] = [[module, attribute, seconds, 'non-victim'|'all']]
    for (mname, attr, seconds, who) in plan.get('delay_points', []):
        mod = importlib.import_module(mname)
        orig = getattr(mod, attr)
        _STATE['patched'].append((mod, attr, orig))
        setattr(mod, attr, _wrap_delay(orig, plan, seconds, who))


def uninstall():
    for mod, attr, orig in reversed(_STATE['patched']):
        setattr(mod, attr, orig)
    _STATE['patched'] = []
    _STATE['plan'] = None


def collect(join_timeout=10.0):
    """Exit codes (after joining stragglers) and the event log."""
    plan = _STATE['plan']
    codes = []
    for p in _STATE['procs']:
        try:
            if p.pid is not None:
                p.join(join_timeout)
            if p.pid is not None and p.exitcode is None:
                p.kill()
                p.join(2)
        except Exception:
            pass
        codes.append(p.exitcode)
    events = []
    if plan is not None:
        path = os.path.join(plan['log_dir'], 'inject.jsonl')
        if os.path.exists(path):
            for line in open(path):
                try:
                    events.append(json.loads(line))
                except Exception:
                    pass
    return codes, events


def finish_order(events):
    fin = [e for e in events if e.get('ev') == 'finish']
    fin.sort(key=lambda e: e['t'])
    return [e['idx'] for e in fin]


STAGE_MODULES = [
    'cell_type_mapper.type_assignment.election',
    'cell_type_mapper.diff_exp.precompute_from_anndata',
    'cell_type_mapper.diff_exp.markers',
    'cell_type_mapper.diff_exp.p_value_mask',
    'cell_type_mapper.diff_exp.p_value_markers',
    'cell_type_mapper.marker_selection.selection_pipeline',
    'cell_type_mapper.utils.csc_to_csr_parallel',
]
