"""
Harness: generates case specs for a property check, runs them in isolated
worker interpreters (subprocess.run with a timeout, never a Pool), gathers
what the monitors observed, writes evidence and prints verdict lines.

Verdicts are three-valued:
  exit 0  held on everything observed (KNOWN-FINDING lines allowed)
  exit 1  VIOLATION property=<id> replay=<path>
  exit 2  INCONCLUSIVE property=<id> reason=...
"""
import argparse
import concurrent.futures
import hashlib
import importlib
import json
import os
import pathlib
import shutil
import subprocess
import sys
import tempfile
import time

VERIF = pathlib.Path(__file__).resolve().parent.parent
REPO_SRC = os.environ.get('VP_REPO_SRC', '/repo/src')
PYTHON = '/venv/bin/python'
DEPS = VERIF / '.deps'
N_PAR = int(os.environ.get('VP_NPAR', '16'))


def ensure_deps():
    """icontract / deal beside the repo's interpreter, from the wheelhouse."""
    if (DEPS / 'icontract').exists() and (DEPS / 'deal').exists():
        return
    DEPS.mkdir(exist_ok=True)
    cmd = [PYTHON, '-m', 'pip', 'install', '-q', '--no-index',
           '--find-links', '/opt/veriftools/wheels',
           '--target', str(DEPS), 'deal', 'icontract']
    subprocess.run(cmd, check=True, stdout=subprocess.DEVNULL,
                   stderr=subprocess.DEVNULL)


def worker_env(scratch, hashseed='0', extra=None):
    env = dict(os.environ)
    env.update({
        'TMPDIR': str(scratch),
        'OPENBLAS_NUM_THREADS': '1',
        'OMP_NUM_THREADS': '1',
        'MKL_NUM_THREADS': '1',
        'PYTHONDONTWRITEBYTECODE': '1',
        'PYTHONPATH': f'{REPO_SRC}:{VERIF}:{DEPS}',
        'PYTHONHASHSEED': str(hashseed),
        'VP_REPO_SRC': REPO_SRC,
        'PYTHONWARNINGS': 'ignore',
    })
    if extra:
        env.update(extra)
    return env


def spec_hash(spec):
    return hashlib.sha256(
        json.dumps(spec, sort_keys=True).encode()).hexdigest()[:16]


def _run_batch(check_name, batch, timeout, batch_idx):
    """Run one batch of case specs in a fresh interpreter."""
    root = pathlib.Path(tempfile.mkdtemp(prefix=f'vp_{check_name}_'))
    try:
        (root / 'tmp').mkdir()
        batch_path = root / 'batch.json'
        out_path = root / 'out.jsonl'
        batch_path.write_text(json.dumps(batch))
        env = worker_env(root / 'tmp')
        t0 = time.time()
        timed_out = False
        try:
            proc = subprocess.run(
                [PYTHON, '-X', 'faulthandler', '-m', 'vp.case_runner',
                 '--check', check_name,
                 '--batch', str(batch_path),
                 '--out', str(out_path),
                 '--root', str(root)],
                env=env, cwd=str(root), timeout=timeout,
                stdout=subprocess.PIPE, stderr=subprocess.STDOUT,
                start_new_session=True)
            rc = proc.returncode
            tail = proc.stdout.decode('utf-8', 'replace')[-3000:]
        except subprocess.TimeoutExpired as exc:
            timed_out = True
            rc = None
            tail = (exc.stdout or b'').decode('utf-8', 'replace')[-3000:]
            # kill the whole session (orphan grandchildren included)
            subprocess.run(['pkill', '-9', '-f', str(root)],
                           stdout=subprocess.DEVNULL,
                           stderr=subprocess.DEVNULL)
        results = []
        if out_path.exists():
            for line in out_path.read_text().splitlines():
                try:
                    results.append(json.loads(line))
                except Exception:
                    pass
        done = {r['case_id'] for r in results}
        for spec in batch:
            if spec['case_id'] not in done:
                results.append({
                    'case_id': spec['case_id'],
                    'spec': spec,
                    'inconclusive': ('batch timed out' if timed_out
                                     else f'worker died rc={rc}'),
                    'worker_tail': tail[-1500:]})
        return results, time.time() - t0
    finally:
        subprocess.run(['pkill', '-9', '-f', str(root)],
                       stdout=subprocess.DEVNULL, stderr=subprocess.DEVNULL)
        shutil.rmtree(root, ignore_errors=True)


def load_known():
    path = VERIF / 'known_findings.json'
    if not path.exists():
        return []
    return json.loads(path.read_text())


def run_check(check_name, tier, seed, replay=None):
    ensure_deps()
    t0 = time.time()
    mod = importlib.import_module(f'vp.checks.{check_name}')
    prop = mod.PROPERTY
    if replay is not None:
        rep = json.loads(pathlib.Path(replay).read_text())
        cases = [rep['spec']]
    else:
        cases = mod.gen_cases(tier, seed)
    for i, c in enumerate(cases):
        c.setdefault('case_id', f'{prop}-{i:05d}')
    batch_size = getattr(mod, 'BATCH_SIZE', {'quick': 8, 'thorough': 16})
    if isinstance(batch_size, dict):
        batch_size = batch_size[tier]
    per_case_timeout = getattr(mod, 'CASE_TIMEOUT', 120)
    batches = [cases[i:i + batch_size]
               for i in range(0, len(cases), batch_size)]
    results = []
    with concurrent.futures.ThreadPoolExecutor(max_workers=N_PAR) as ex:
        futs = [ex.submit(_run_batch, check_name, b,
                          60 + per_case_timeout * len(b), i)
                for i, b in enumerate(batches)]
        for f in concurrent.futures.as_completed(futs):
            res, _ = f.result()
            results.extend(res)
    results.sort(key=lambda r: r['case_id'])
    return finalize(mod, tier, seed, results, time.time() - t0,
                    replay=replay)


def finalize(mod, tier, seed, results, wall, replay=None):
    prop = mod.PROPERTY
    known = [k for k in load_known() if k.get('property') == prop
             and k.get('status') == 'known']
    known_sigs = {k['sig']: k for k in known}

    counters = {}
    dontcare = {}
    features = set()
    n_nontrivial_cases = 0
    n_inconclusive = 0
    inconclusive_reasons = {}
    violations = []
    known_hits = {}
    samples = []
    for r in results:
        if r.get('inconclusive'):
            n_inconclusive += 1
            key = r['inconclusive']
            inconclusive_reasons[key] = inconclusive_reasons.get(key, 0) + 1
            continue
        for k, v in r.get('counters', {}).items():
            counters[k] = counters.get(k, 0) + v
        for k, v in r.get('dontcare', {}).items():
            dontcare[k] = dontcare.get(k, 0) + v
        if r.get('nontrivial'):
            f = r.get('features')
            fkey = json.dumps(f, sort_keys=True)
            if fkey not in features:
                features.add(fkey)
            n_nontrivial_cases += 1
        if r.get('sample') is not None and len(samples) < 5:
            samples.append(r['sample'])
        for v in r.get('violations', []):
            sig = v.get('sig')
            if sig in known_sigs:
                known_hits.setdefault(sig, []).append((r, v))
            else:
                violations.append((r, v))

    n_distinct = len(features)
    if hasattr(mod, 'distinct_count'):
        n_distinct = int(mod.distinct_count(
            [r for r in results if not r.get('inconclusive')]))

    # verdict
    lines = []
    for sig, hits in sorted(known_hits.items()):
        k = known_sigs[sig]
        lines.append(f"KNOWN-FINDING: property={prop} {k['what']} "
                     f"[sig={sig}; seen {len(hits)}x this run]")
    replay_dir = pathlib.Path(os.environ.get(
        'VP_REPLAY_DIR', VERIF / 'replays')) / prop
    seen_sig = set()
    n_viol = len(violations)
    for r, v in violations:
        sig = v.get('sig', 'unclassified')
        if sig in seen_sig or len(seen_sig) >= 12:
            # one replay per mechanism signature is enough on stdout
            continue
        seen_sig.add(sig)
        replay_dir.mkdir(parents=True, exist_ok=True)
        h = spec_hash(r['spec'])
        path = replay_dir / f'{h}.json'
        path.write_text(json.dumps(
            {'property': prop, 'spec': r['spec'], 'violation': v,
             'check': mod.__name__.split('.')[-1]}, indent=1))
        lines.append(f"VIOLATION property={prop} replay={path}")
        lines.append(f"  sig={sig} :: {str(v.get('msg'))[:600]}")

    required = getattr(mod, 'REQUIRED_COUNTERS', [])
    inconclusive = None
    n_cases = len(results)
    if n_viol == 0:
        # (a replay runs the one recorded case: class-coverage counters of
        # the whole workload do not apply to it)
        missing = [c for c in required if counters.get(c, 0) == 0] \
            if replay is None else []
        if missing:
            inconclusive = f'deciding monitors never reached: {missing}'
        elif n_cases and n_inconclusive / n_cases > 0.10:
            inconclusive = (f'{n_inconclusive}/{n_cases} cases did not '
                            f'finish: {inconclusive_reasons}')
        elif n_distinct < 2 and replay is None:
            inconclusive = 'fewer than 2 distinct non-trivial cases'

    ev = {
        'property_id': prop,
        'tier': tier,
        'seed': int(seed),
        'level': getattr(mod, 'LEVEL', 'exploration'),
        'coverage': {
            'evaluations': n_cases,
            'distinct_nontrivial': n_distinct,
            'nontrivial_cases': n_nontrivial_cases,
            'rule': getattr(mod, 'RULE', ''),
            'samples': samples if samples else ['(no sample recorded)'],
            'monitor_counters': counters,
            'dont_care': dontcare,
            'cases_inconclusive': n_inconclusive,
            'inconclusive_reasons': inconclusive_reasons,
            'known_findings_seen': {s: len(h) for s, h in known_hits.items()},
            'exhaustive': bool(getattr(mod, 'EXHAUSTIVE', {}).get(tier, False))
            if isinstance(getattr(mod, 'EXHAUSTIVE', None), dict) else False,
        },
        'assumptions': getattr(mod, 'ASSUMPTIONS', []),
        'wall_s': round(wall, 2),
        'violations': n_viol,
        'verdict': ('violated' if n_viol else
                    ('inconclusive: ' + inconclusive if inconclusive
                     else 'held on what was observed')),
    }
    extra = getattr(mod, 'extra_evidence', None)
    if extra is not None:
        try:
            ev['coverage'].update(extra(results))
        except Exception as exc:  # evidence decoration must never decide
            ev['coverage']['extra_evidence_error'] = repr(exc)
    if replay is None:
        ev_dir = pathlib.Path(os.environ.get('VP_EVIDENCE_DIR',
                                             VERIF / 'evidence'))
        ev_dir.mkdir(exist_ok=True, parents=True)
        (ev_dir / f'{prop}.json').write_text(
            json.dumps(ev, indent=1, default=str))

    print(f"[{prop}] tier={tier} seed={seed} cases={n_cases} "
          f"distinct_nontrivial={n_distinct} "
          f"inconclusive_cases={n_inconclusive} wall={wall:.1f}s")
    print(f"[{prop}] monitor counters: "
          f"{json.dumps(counters, sort_keys=True)}")
    if dontcare:
        print(f"[{prop}] don't-care: {json.dumps(dontcare, sort_keys=True)}")
    for ln in lines:
        print(ln)
    if n_viol:
        return 1
    if inconclusive:
        print(f"INCONCLUSIVE property={prop} reason={inconclusive}")
        # show one worker tail to help diagnosis
        for r in results:
            if r.get('inconclusive') and r.get('worker_tail'):
                print('--- worker tail ---')
                print(r['worker_tail'])
                break
        return 2
    print(f"[{prop}] HELD on what was observed")
    return 0


def main(argv=None):
    ap = argparse.ArgumentParser()
    ap.add_argument('prop')
    ap.add_argument('--tier', default=os.environ.get('VERIF_TIER', 'quick'),
                    choices=['quick', 'thorough'])
    ap.add_argument('--replay', default=None)
    ap.add_argument('--seed', type=int,
                    default=int(os.environ.get('VERIF_SEED', '0')))
    args = ap.parse_args(argv)
    name = args.prop.lower()
    rc = run_check(name, args.tier, args.seed, replay=args.replay)
    sys.exit(rc)


if __name__ == '__main__':
    main()
