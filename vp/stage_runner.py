"""
Runs one pipeline stage once in a fresh interpreter (so that PYTHONHASHSEED
takes effect) on the files of a saved Env, optionally under an injection plan
(completion order / delays), and writes a digest of every output to JSON.
"""
import argparse
import hashlib
import json
import pathlib
import sys


def digest_outputs(stage, outs, exc):
    from vp import pipeworld as pw
    from vp import mapworld
    d = {}
    if exc is not None:
        d['exception'] = repr(exc)[:500]
        return d
    for key, val in outs.items():
        if key == 'config':
            cfg = val
            js = json.loads(pathlib.Path(
                cfg['extended_result_path']).read_text())
            core = mapworld.strip_volatile(js)
            # level records in which the winner and the first runner-up
            # hold the same number of votes (a tie had to be broken)
            tied = 0
            for rec in js.get('results', []):
                for lv, lr in rec.items():
                    if isinstance(lr, dict) and \
                            lr.get('runner_up_probability') and \
                            lr['runner_up_probability'][0] == \
                            lr.get('bootstrapping_probability'):
                        tied += 1
            d['tied_vote_records'] = tied
            d['json'] = hashlib.sha256(
                json.dumps(core, sort_keys=True).encode()).hexdigest()
            d['csv'] = hashlib.sha256(pathlib.Path(
                cfg['csv_result_path']).read_bytes()).hexdigest()
            hd = pw.h5_digest(cfg['hdf5_result_path'], skip=('metadata',))
            d['hdf5'] = {k: hashlib.sha256(v[2] if isinstance(v[2], bytes)
                                           else str(v[2]).encode()
                                           ).hexdigest() + str(v[:2])
                         for k, v in hd.items()}
        elif key == 'config_obsm':
            hd = pw.h5_digest(val['query_path'], skip=())
            d['query_obsm'] = {k: hashlib.sha256(
                v[2] if isinstance(v[2], bytes) else str(v[2]).encode()
            ).hexdigest() + str(v[:2]) for k, v in hd.items()
                if k.startswith('obsm')}
        elif key == 'returned':
            def plain(o):
                if isinstance(o, dict):
                    return {str(k): plain(v) for k, v in o.items()}
                if isinstance(o, (list, tuple)):
                    return [plain(v) for v in o]
                if hasattr(o, 'item'):
                    return o.item()
                return o
            txt = json.dumps(plain(val), sort_keys=True)
            d['returned'] = hashlib.sha256(txt.encode()).hexdigest()
        else:
            hd = pw.h5_digest(val, skip=('metadata',))
            d[key] = {k: hashlib.sha256(
                v[2] if isinstance(v[2], bytes) else str(v[2]).encode()
            ).hexdigest() + str(v[:2]) for k, v in hd.items()}
            # the same file by value: integer arrays widened to int64,
            # floats to float64 (the serial and the parallel code paths
            # legitimately store equal index arrays in different widths)
            d[key + '__values'] = value_digest(val)
    return d


def value_digest(path):
    import h5py
    import numpy as np
    out = {}
    with h5py.File(path, 'r') as f:
        def visit(name, obj):
            if not isinstance(obj, h5py.Dataset) or \
                    name.split('/')[-1] == 'metadata':
                return
            v = obj[()]
            if isinstance(v, np.ndarray) and v.dtype.kind in 'iub':
                v = v.astype(np.int64)
            elif isinstance(v, np.ndarray) and v.dtype.kind == 'f':
                v = v.astype(np.float64)
            if isinstance(v, np.ndarray) and v.dtype != object:
                out[name] = hashlib.sha256(v.tobytes()).hexdigest() + \
                    str(v.shape)
        f.visititems(visit)
    return out


def main():
    ap = argparse.ArgumentParser()
    ap.add_argument('--env-dir', required=True)
    ap.add_argument('--stage', required=True)
    ap.add_argument('--out-dir', required=True)
    ap.add_argument('--plan', default=None)
    ap.add_argument('--n-proc', type=int, default=None)
    ap.add_argument('--result', required=True)
    args = ap.parse_args()
    from vp import inject
    from vp.checks import c14
    env = c14.Env.load(args.env_dir)
    info = c14.STAGES[args.stage]
    plan = None
    if args.plan:
        plan = json.loads(pathlib.Path(args.plan).read_text())
        inject.install(plan, info['modules'])
    else:
        inject.install({'log_dir': str(pathlib.Path(args.out_dir) /
                                       'inj')}, info['modules'])
    exc, tb, outs = c14.run_stage(env, args.stage,
                                  pathlib.Path(args.out_dir),
                                  n_proc=args.n_proc)
    codes, events = inject.collect()
    inject.uninstall()
    res = digest_outputs(args.stage, outs, exc)
    res['traceback'] = tb
    res['finish_order'] = inject.finish_order(events)
    res['turn_timeouts'] = sum(1 for e in events
                               if e.get('ev') == 'turn_timeout')
    res['n_workers'] = len(codes)
    pathlib.Path(args.result).write_text(json.dumps(res))


if __name__ == '__main__':
    main()
