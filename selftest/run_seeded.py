#!/venv/bin/python
"""
Run checks against the independently written seeded changes kept under
/verif/seeded/<name>/ (patch.diff, demo.py, meta.json).

Default mode applies the patch to a scratch copy of /repo/src (outside /repo
and /verif) and points the checks at it with VP_REPO_SRC, so that it can run
while other checks use /repo.  With --in-repo the patch is applied to /repo
itself (git apply) and undone straight afterwards (git checkout -- .).

usage: run_seeded.py [--in-repo] [--tier quick|thorough] [--checks C01,C02]
                     [name ...]
"""
import argparse
import json
import os
import pathlib
import shutil
import subprocess
import sys
import tempfile

VERIF = pathlib.Path(__file__).resolve().parent.parent
SEEDED = VERIF / 'seeded'


def run_checks(checks, tier, env):
    res = []
    for chk in checks:
        proc = subprocess.run([str(VERIF / 'check'), chk, '--tier', tier],
                              env=env, cwd=str(VERIF),
                              stdout=subprocess.PIPE,
                              stderr=subprocess.STDOUT)
        out = proc.stdout.decode('utf-8', 'replace')
        sigs = sorted({ln.strip().split(' :: ')[0]
                       for ln in out.splitlines()
                       if ln.strip().startswith('sig=')})
        res.append((chk, proc.returncode, sigs[:5]))
    return res


def main():
    ap = argparse.ArgumentParser()
    ap.add_argument('--in-repo', action='store_true')
    ap.add_argument('--tier', default='quick')
    ap.add_argument('--checks', default=None)
    ap.add_argument('names', nargs='*')
    args = ap.parse_args()
    names = args.names or sorted(p.name for p in SEEDED.iterdir()
                                 if (p / 'patch.diff').exists())
    ok = True
    for name in names:
        d = SEEDED / name
        meta = json.loads((d / 'meta.json').read_text())
        checks = args.checks.split(',') if args.checks else \
            meta.get('expected_checks', [meta['property']])
        if not checks:
            print(f'{name}: SKIPPED (not expected to be caught: '
                  f'{meta.get("detection", {}).get("note", "")[:80]})')
            continue
        root = pathlib.Path(tempfile.mkdtemp(prefix='vp_seed_'))
        try:
            env = dict(os.environ)
            env['VP_EVIDENCE_DIR'] = str(root / 'evidence')
            env['VP_REPLAY_DIR'] = str(root / 'replays')
            if args.in_repo:
                subprocess.run(['git', '-C', '/repo', 'apply',
                                str(d / 'patch.diff')], check=True)
                try:
                    res = run_checks(checks, args.tier, env)
                finally:
                    subprocess.run(['git', '-C', '/repo', 'checkout', '--',
                                    '.'], check=True)
            else:
                shutil.copytree('/repo/src', root / 'src',
                                ignore=shutil.ignore_patterns(
                                    '__pycache__', '*.egg-info'))
                p = subprocess.run(['patch', '-p1', '-s', '-d', str(root),
                                    '-i', str(d / 'patch.diff')],
                                   stdout=subprocess.PIPE,
                                   stderr=subprocess.STDOUT)
                if p.returncode != 0:
                    print(f'{name}: PATCH-DOES-NOT-APPLY '
                          f'{p.stdout.decode()[-300:]}')
                    ok = False
                    continue
                env['VP_REPO_SRC'] = str(root / 'src')
                res = run_checks(checks, args.tier, env)
            for chk, rc, sigs in res:
                verdict = 'CAUGHT' if rc == 1 else f'MISSED(rc={rc})'
                if rc != 1:
                    ok = False
                print(f'{name} -> {chk}: {verdict} {sigs}')
        finally:
            shutil.rmtree(root, ignore_errors=True)
    sys.exit(0 if ok else 1)


if __name__ == '__main__':
    main()
