#!/venv/bin/python
"""
Self-test of the monitors: apply each deliberate property-breaking edit to a
scratch copy of /repo/src (outside /repo and /verif), run the owning quick
check against the copy (VP_REPO_SRC), expect exit 1 + VIOLATION; delete the
copy.  Usage: run_mutants.py [name ...]   (no name = all)
"""
import json
import os
import pathlib
import shutil
import subprocess
import sys
import tempfile

HERE = pathlib.Path(__file__).resolve().parent
VERIF = HERE.parent
sys.path.insert(0, str(HERE))
from mutants import MUTANTS  # noqa


def run_one(name, m):
    root = pathlib.Path(tempfile.mkdtemp(prefix='vp_mut_'))
    try:
        src = root / 'src'
        shutil.copytree('/repo/src', src,
                        ignore=shutil.ignore_patterns('__pycache__',
                                                      '*.egg-info'))
        for (rel, old, new) in m['edits']:
            p = src / 'cell_type_mapper' / rel
            s = p.read_text()
            if old not in s:
                return name, 'PATCH-DOES-NOT-APPLY', ''
            p.write_text(s.replace(old, new, 1))
        results = []
        for chk in m['checks']:
            env = dict(os.environ)
            env['VP_REPO_SRC'] = str(src)
            env['VP_EVIDENCE_DIR'] = str(root / 'evidence')
            env['VP_REPLAY_DIR'] = str(root / 'replays')
            proc = subprocess.run(
                [str(VERIF / 'check'), chk, '--tier', 'quick'],
                env=env, stdout=subprocess.PIPE, stderr=subprocess.STDOUT,
                cwd=str(VERIF))
            out = proc.stdout.decode('utf-8', 'replace')
            sigs = sorted({ln.strip().split(' :: ')[0]
                           for ln in out.splitlines()
                           if ln.strip().startswith('sig=')})
            results.append((chk, proc.returncode, sigs[:4]))
        return name, results, ''
    finally:
        shutil.rmtree(root, ignore_errors=True)


def main():
    names = sys.argv[1:] or list(MUTANTS.keys())
    ok = True
    for n in names:
        name, res, _ = run_one(n, MUTANTS[n])
        if isinstance(res, str):
            print(f'{name}: {res}')
            ok = False
            continue
        for chk, rc, sigs in res:
            verdict = 'CAUGHT' if rc == 1 else f'MISSED(rc={rc})'
            if rc != 1:
                ok = False
            print(f'{name} -> {chk}: {verdict} {sigs}')
    sys.exit(0 if ok else 1)


if __name__ == '__main__':
    main()
