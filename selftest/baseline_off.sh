#!/bin/bash
# Runs the repository's pinned test suite with the verification guard OFF and
# compares the set of passing tests with BASELINE.json's stable_pass list.
unset CELL_TYPE_MAPPER_VERIF CELL_TYPE_MAPPER_VERIF_TRACE
OUT=$(mktemp -d)
cd /repo && /venv/bin/python -m pytest -q -p no:cacheprovider --timeout=900 \
  --continue-on-collection-errors --junitxml=$OUT/junit.xml >/dev/null 2>&1 || true
/venv/bin/python - "$OUT/junit.xml" <<'PY'
import json, sys, xml.etree.ElementTree as ET
base = json.load(open('/root/.vp/BASELINE.json'))
want = set(base['stable_pass'])
tree = ET.parse(sys.argv[1])
passed = set()
for tc in tree.iter('testcase'):
    bad = any(ch.tag in ('failure', 'error', 'skipped') for ch in tc)
    if not bad:
        passed.add(f"{tc.get('classname')}::{tc.get('name')}")
missing = sorted(want - passed)
print(f"stable_pass={len(want)} passed_now={len(passed & want)} missing={len(missing)}")
for m in missing[:20]:
    print("MISSING", m)
sys.exit(1 if missing else 0)
PY
rc=$?
rm -rf "$OUT"
exit $rc
