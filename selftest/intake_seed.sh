#!/bin/bash
# intake_seed.sh <property id> <source dir with patch.diff demo.py notes.md> [name]
# Confirms an independently written seeded change in a fresh scratch worktree:
# demo passes on the unchanged tree, fails with the patch, the 479 baseline
# tests still pass with the patch.  On success stores it under /verif/seeded/<name>/.
PID=$1; SRC=$2; NAME=${3:-${PID}_agent}
WT=/tmp/intake_$NAME
rm -rf $WT; git -C /repo worktree prune
git -C /repo worktree add -q --detach $WT HEAD || exit 2
status=ok
PYTHONPATH=$WT/src PYTHONWARNINGS=ignore timeout 600 /venv/bin/python $SRC/demo.py > /tmp/intake_$NAME.clean.log 2>&1
rc_clean=$?
git -C $WT apply $SRC/patch.diff || status=patch-does-not-apply
PYTHONPATH=$WT/src PYTHONWARNINGS=ignore timeout 600 /venv/bin/python $SRC/demo.py > /tmp/intake_$NAME.patched.log 2>&1
rc_patched=$?
/venv/bin/python -c "import sys; sys.path.insert(0,'$WT/src'); import cell_type_mapper" || status=import-fails
/tmp/seedtools/run_baseline.sh $WT > /tmp/intake_$NAME.baseline.log 2>&1
rc_base=$?
echo "$NAME: status=$status demo_clean_rc=$rc_clean demo_patched_rc=$rc_patched baseline_rc=$rc_base $(tail -1 /tmp/intake_$NAME.baseline.log | head -c 120)"
if [ "$status" = ok ] && [ $rc_clean -eq 0 ] && [ $rc_patched -ne 0 ] && [ $rc_base -eq 0 ]; then
  mkdir -p /verif/seeded/$NAME
  cp $SRC/patch.diff $SRC/demo.py /verif/seeded/$NAME/
  [ -f $SRC/notes.md ] && cp $SRC/notes.md /verif/seeded/$NAME/
  /venv/bin/python - <<PY
import json, pathlib
d = pathlib.Path('/verif/seeded/$NAME')
notes = (d / 'notes.md').read_text() if (d / 'notes.md').exists() else ''
meta = {
  'property': '$PID',
  'origin': 'independent sub-agent given only the property text and a scratch worktree',
  'needs_to_manifest': notes[:1500],
  'confirmed': {
     'worktree': 'fresh scratch worktree of /repo HEAD (removed afterwards)',
     'demo_on_unchanged_tree_rc': $rc_clean,
     'demo_with_patch_rc': $rc_patched,
     'baseline_479_tests_with_patch': 'all still pass',
     'commands': ['PYTHONPATH=<wt>/src /venv/bin/python demo.py (before / after git apply patch.diff)',
                  'pytest baseline command of /root/.vp/BASELINE.json against <wt>/src, compared with stable_pass'],
  },
  'expected_checks': ['$PID'],
}
(d / 'meta.json').write_text(json.dumps(meta, indent=1))
PY
  echo "$NAME: KEPT"
else
  echo "$NAME: REJECTED (see /tmp/intake_$NAME.*.log)"
fi
git -C /repo worktree remove --force $WT
