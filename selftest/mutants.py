"""Deliberate property-breaking edits (applied to scratch copies only)."""

MUTANTS = {
    'c02_floor_instead_of_round': {
        'checks': ['C02'],
        'edits': [('type_assignment/election.py',
                   'n_bootstrap = np.round(bootstrap_factor*n_markers).astype(int)',
                   'n_bootstrap = np.floor(bootstrap_factor*n_markers).astype(int)')],
    },
    'c02_replace_true': {
        'checks': ['C02'],
        'edits': [('type_assignment/election.py',
                   'chosen_idx = rng.choice(marker_idx, n_bootstrap, replace=False)',
                   'chosen_idx = rng.choice(marker_idx, n_bootstrap, replace=True)')],
    },
    'c02_argmin': {
        'checks': ['C02'],
        'edits': [('utils/distance_utils.py',
                   '    correlation_array = correlation_dot(baseline_array, query_array)\n    max_idx = np.argmax(correlation_array, axis=0)',
                   '    correlation_array = correlation_dot(baseline_array, query_array)\n    max_idx = np.argmin(correlation_array, axis=0)')],
    },
    'c02_normalize_after_downsample': {
        'checks': ['C02'],
        'edits': [('type_assignment/election.py',
                   "        if data.normalization != 'log2CPM':\n            data.to_log2CPM_in_place()\n\n        # downsample to just include marker genes\n        # to limit memory footprint\n        data.downsample_genes_in_place(all_query_markers)\n",
                   "        data.downsample_genes_in_place(all_query_markers)\n        if data.normalization != 'log2CPM':\n            data._genes_downsampled = False\n            data.to_log2CPM_in_place()\n")],
    },
    'c02_query_subset_mismatch': {
        'checks': ['C02'],
        'edits': [('type_assignment/election.py',
                   'bootstrap_reference = reference_gene_data[:, chosen_idx]',
                   'bootstrap_reference = reference_gene_data[:, chosen_idx[::-1]]')],
    },
    'c02_votes_to_wrong_child': {
        'checks': ['C02'],
        'edits': [('type_assignment/election.py',
                   'vote_array_agg[:, new_idx] = vote_array[:, col_idx].sum(axis=1)',
                   'vote_array_agg[:, (new_idx+1) % n_unq] = vote_array[:, col_idx].sum(axis=1)')],
    },
    'c01_no_reorder': {
        'checks': ['C01'],
        'edits': [('type_assignment/election_runner.py',
                   '    result = re_order_blob(\n        results_blob=result,\n        query_path=query_h5ad_path)\n',
                   '')],
    },
    'c01_backfill_from_reduced_tree': {
        'checks': ['C01'],
        'edits': [('cli/from_specified_markers.py',
                   'result = tree_for_metadata.backfill_assignments(result)',
                   'result = taxonomy_tree.backfill_assignments(result)')],
    },
    'c02_names_reversed_within_chunk': {
        'checks': ['C02'],
        'edits': [('type_assignment/election.py',
                   'name_chunk = query_cell_names[r0:r1]',
                   'name_chunk = query_cell_names[chunk_index*chunk_size:'
                   '(chunk_index+1)*chunk_size][::-1]')],
    },
    'c03_aggregate_skips_level': {
        'checks': ['C03'],
        'edits': [('type_assignment/election.py',
                   "        for level in taxonomy_tree.hierarchy:\n            prob *= cell[level]['bootstrapping_probability']",
                   "        for level in taxonomy_tree.hierarchy[1:]:\n            cell[taxonomy_tree.hierarchy[0]]['aggregate_probability'] = 1.0\n            prob *= cell[level]['bootstrapping_probability']")],
    },
    'c03_keep_zero_vote_runners': {
        'checks': ['C03'],
        'edits': [('type_assignment/election.py',
                   "                    runner_up_assignments = [\n                        this[0] for this in r_up if this[1]]",
                   "                    runner_up_assignments = [\n                        this[0] for this in r_up]"),
                  ('type_assignment/election.py',
                   "                    runner_up_correlation = [\n                        this[2] for this in r_up if this[1]]",
                   "                    runner_up_correlation = [\n                        this[2] for this in r_up]"),
                  ('type_assignment/election.py',
                   "                    runner_up_probability = [\n                        this[3] for this in r_up if this[1]]",
                   "                    runner_up_probability = [\n                        this[3] for this in r_up]")],
    },
    'c03_backfill_keeps_runner_up': {
        'checks': ['C03'],
        'edits': [('taxonomy/taxonomy_tree.py',
                   "                    if k.startswith('runner_up'):",
                   "                    if k.startswith('runner_up_x'):")],
    },
    'c08_farthest_ancestor_first': {
        'checks': ['C08'],
        'edits': [('type_assignment/marker_cache_v2.py',
                   '                for ancestor_level in reverse_hier:',
                   '                for ancestor_level in taxonomy_tree.hierarchy:')],
    },
    'c08_patch_drops_own_markers': {
        'checks': ['C08'],
        'edits': [('type_assignment/marker_cache_v2.py',
                   '                new_markers = set(markers)\n',
                   '                new_markers = set()\n')],
    },
    'c08_query_not_cosorted': {
        'checks': ['C08'],
        'edits': [('type_assignment/marker_cache_v2.py',
                   '                these_query = these_query[sorted_dex]\n',
                   '')],
    },
    'c08_min_markers_off_by_one': {
        'checks': ['C08'],
        'edits': [('type_assignment/marker_cache_v2.py',
                   '        if len(query_gene_names.intersection(markers)) < min_markers:',
                   '        if len(query_gene_names.intersection(markers)) <= min_markers:')],
    },
    'c08_root_always_added': {
        'checks': ['C08'],
        'edits': [('type_assignment/marker_cache_v2.py',
                   "                if len(query_gene_names.intersection(new_markers)) \\\n                        < min_markers:\n                    if 'None' in marker_lookup:",
                   "                if True:\n                    if 'None' in marker_lookup:")],
    },
}
